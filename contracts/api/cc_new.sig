        ensures r.ksize == ksize, r.bin_size == bin_size, r.bin_count == bin_count, r.norm, r.delim@ == seq![' '], r.threads >= 1,
                r.in_path@ == in_path@, r.in_path_kmer == in_path, r.out_dir == out_dir, r.memory_ceil_gb == of_nat(6)
