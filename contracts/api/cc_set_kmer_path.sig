        ensures final(self).in_path_kmer == path, final(self).ksize == old(self).ksize, final(self).bin_size == old(self).bin_size, final(self).bin_count == old(self).bin_count,
                final(self).norm == old(self).norm, final(self).threads == old(self).threads, final(self).memory_ceil_gb == old(self).memory_ceil_gb,
                final(self).in_path == old(self).in_path, final(self).delim == old(self).delim, final(self).out_dir == old(self).out_dir
