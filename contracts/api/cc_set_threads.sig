        ensures final(self).threads == threads, final(self).ksize == old(self).ksize, final(self).bin_size == old(self).bin_size, final(self).bin_count == old(self).bin_count,
                final(self).norm == old(self).norm, final(self).delim == old(self).delim, final(self).memory_ceil_gb == old(self).memory_ceil_gb,
                final(self).in_path == old(self).in_path, final(self).in_path_kmer == old(self).in_path_kmer, final(self).out_dir == old(self).out_dir
