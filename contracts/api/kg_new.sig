        requires 1 <= ksize <= 31
        ensures r.wf(), r.seq == seq, r.ksize == ksize, r.pos == 0
