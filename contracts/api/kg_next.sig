        requires old(self).wf()
        ensures
            final(self).wf(), final(self).seq == old(self).seq, final(self).ksize == old(self).ksize,
            match r {
                Some((f, rv)) => {
                    let p = final(self).pos as int; let k = old(self).ksize as int; let s = old(self).seq@;
                    &&& old(self).pos < p <= s.len()
                    &&& run(s, p) >= k
                    &&& forall|q: int| old(self).pos < q < p ==> run(s, q) < k
                    &&& f == fcode(s.subrange(p - k, p))
                    &&& rv == rcode(s.subrange(p - k, p))
                    &&& f < pow4(k as nat) && rv < pow4(k as nat)
                },
                None => {
                    &&& final(self).pos == old(self).seq@.len()
                    &&& forall|q: int| old(self).pos < q <= old(self).seq@.len() ==> run(old(self).seq@, q) < old(self).ksize
                }
            }
