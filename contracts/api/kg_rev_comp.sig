        requires ksize <= 31
        ensures r == rc_num(kmer as nat, ksize as nat), r < pow4(ksize as nat)
