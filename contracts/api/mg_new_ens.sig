        ensures r.wf(), r.seq == seq, r.wsize == wsize, r.msize == msize, r.frontier() == 0,
