        requires 1 <= msize <= wsize, msize <= 31, wsize < 0x1000_0000_0000_0000
