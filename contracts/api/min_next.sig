        requires old(self).wf()
        ensures final(self).wf(), final(self).seq == old(self).seq, final(self).wsize == old(self).wsize, final(self).msize == old(self).msize,
            final(self).frontier() >= old(self).frontier(),
            match r {
                Some(RUN_PATTERN) => {
                    let s = old(self).seq@; let w = old(self).wsize as nat; let m = old(self).msize as nat;
                    // a real minimiser value (never the u64::MAX placeholder) ...
                    &&& v != u64::MAX
                    // ... of a maximal run of full windows [a, b): every window has that minimiser, not extendable on either side
                    &&& is_run_o(s, w, m, v as nat, a as int, b as int)
                    // ... and it is the next one: no full window was skipped before it, none is dropped after it
                    &&& nfb(s, w, old(self).frontier(), a as int)
                    &&& nfb(s, w, b - w + 1, final(self).frontier())
                    // ... runs come strictly left to right: it starts at or after the frontier, and the frontier moves past its last window start
                    &&& old(self).frontier() <= a
                    &&& b - w + 1 <= final(self).frontier()
                    RUN_EXTRA
                },
                None => {
                    // nothing is left: no full window at or after the frontier
                    &&& nfb(old(self).seq@, old(self).wsize as nat, old(self).frontier(), old(self).seq@.len() as int + 1)
                    NONE_EXTRA
                },
            }
