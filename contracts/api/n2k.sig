    ensures
        r@.len() == k,
        r@ == chars_of(text_of(kmer as nat, k as nat)),
        bytes_of(r@) == text_of(kmer as nat, k as nat),
        forall|j: int| 0 <= j < k ==> is_acgt(#[trigger] bytes_of(r@)[j]),
        fcode(bytes_of(r@)) == (kmer as nat) % pow4(k as nat),
