        requires 1 <= ksize <= 15
        ensures
            // what vectorise_one / get_header / the writers rely on
            posmaps_ok(r.pos_map@, r.pos_kmer@, r.kcount, ksize as nat), r.ksize == ksize,
            r.in_path == in_path, r.out_path == out_path,
            r.norm, !r.header, r.delim@ == seq![' '], r.threads >= 1, r.memory == 0x1_0000_0000,
