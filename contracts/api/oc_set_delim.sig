        ensures final(self).delim == delim, final(self).ksize == old(self).ksize, final(self).kcount == old(self).kcount, final(self).pos_map == old(self).pos_map, final(self).pos_kmer == old(self).pos_kmer,
                final(self).threads == old(self).threads, final(self).norm == old(self).norm, final(self).header == old(self).header, final(self).memory == old(self).memory,
                final(self).in_path == old(self).in_path, final(self).out_path == old(self).out_path
