        requires 1 <= ksize <= 15
        ensures posmaps_ok(r.0@, r.1@, r.2, ksize as nat)
