"""Registry: units, the properties they serve, and per-function attribution.

unit:
  template   contract template under contracts/
  backend    'verus' | 'kani'
  serves     default list of properties a failing bundle of this unit violates
  fn_props   optional {regex over function name: [properties]} overriding `serves`
property:
  units      units whose bundles decide the property (a failing bundle mapped to the property = violation)
  deps       units whose contracts are only imported (failure there = DEPENDENCY-FAILED unless the
             property's own replay search finds a concrete failing input)
  replay     sub-command of the replay program used to look for a concrete witness
"""

UNITS = {
    'kmer_gen': {
        'template': 'kmer_gen.vrs', 'backend': 'verus',
        'serves': ['C01', 'C02'],
        'fn_props': {
            r'^KmerGenerator::(new|next)$': ['C01', 'C02', 'C14'],
            r'^(collect_all|lemma_stream.*|lemma_kmers_spec.*)$': ['C01'],
            r'^KmerGenerator::rev_comp$': ['C02', 'C03'],
            r'^(lemma_rc_.*|lemma_rcnum.*|lemma_revcomp.*)$': ['C02'],
        },
    },
    'kmer_kani': {
        'backend': 'kani', 'crate': 'kmer_h', 'serves': ['C02'],
        'harnesses': [
            {'name': 'revcomp_involution', 'complete': True, 'bound': 'k <= 31 (operand width), unwind 33 with unwinding assertions',
             'claim': 'rev_comp(rev_comp(x,k),k) == x and rev_comp(x,k) < 4^k for all k in 1..=31, x < 4^k'},
            {'name': 'revcomp_digits', 'complete': True, 'bound': 'k <= 31 (operand width), unwind 33 with unwinding assertions',
             'claim': 'digit j of x is the complement of digit k-1-j of rev_comp(x,k)'},
        ],
        'trusted': ['Kani harnesses link the real kmer crate through a path dependency on /repo/kmer (no extraction)'],
    },
    'minimiser': {
        'template': 'minimiser.vrs', 'backend': 'verus',
        'serves': ['C09', 'C16'],
    },
    'kmer_minimiser': {
        'template': 'kmer_minimiser.vrs', 'backend': 'verus',
        'serves': ['C18', 'C16'],
    },
    'posmaps': {
        'template': 'posmaps.vrs', 'backend': 'verus',
        'serves': ['C03', 'C14'],
    },
    'header': {
        'template': 'header.vrs', 'backend': 'verus',
        'serves': ['C03', 'C12', 'C13'],
    },
    'oligo_vec': {
        'template': 'oligo_vec.vrs', 'backend': 'verus',
        'serves': ['C04', 'C12', 'C13', 'C14'],
        'fn_props': {
            r'^OligoComputer::vectorise_one$': ['C04', 'C14', 'C13'],
            r'^ocgr::': ['C12', 'C14'],
            r'^py::': ['C13', 'C14'],
        },
    },
    'float_kani': {
        'backend': 'kani', 'crate': 'float_h', 'serves': ['C04', 'C08', 'C11', 'C12'], 'needs_lock': False,
        'harnesses': [
            {'name': 'f64_succ_exact', 'complete': True, 'bound': 'none (loop-free, all n < 2^53)',
             'claim': 'axiom A1: (n as f64) + 1.0 == (n+1) as f64 exactly for every n < 2^53'},
            {'name': 'cgr_midpoint_half_square', 'complete': True, 'bound': 'none (loop-free, all S in [1,2^20], all m in [0,S])',
             'claim': 'axiom A3: (0+m)/2 in [0,S/2] and (S+m)/2 in [S/2,S]'},
            {'name': 'cgr_centre_in_square', 'complete': True, 'bound': 'none (loop-free, all S in [1,2^20])',
             'claim': 'axiom A3 (centre): S/2 in [0,S]'},
        ],
        'trusted': ['CBMC floating-point model (IEEE-754 binary64, round-to-nearest-even)'],
    },
    'mmap_rows': {
        'template': 'mmap_rows.vrs', 'backend': 'verus',
        'serves': ['C14', 'C05'],
    },
    'cgr': {
        'template': 'cgr.vrs', 'backend': 'verus',
        'serves': ['C11'],
        'fn_props': {
            r'^(cgr_maps|CgrComputer::vectorise_one|lemma_cgr_contained)$': ['C11', 'C13'],
            r'^ocgr::': ['C12', 'C11'],
            r'^py::': ['C13', 'C11'],
        },
    },
    'cov_vec': {
        'template': 'cov_vec.vrs', 'backend': 'verus',
        'serves': ['C08', 'C14'],
    },
    'batch_loops': {
        'template': 'batch_loops.vrs', 'backend': 'verus',
        'serves': ['C16'],
        'fn_props': {
            r'^OligoComputer::verif_lift_oligo_batch$': ['C05', 'C16'],
            r'^cgr::': ['C11', 'C16'],
            r'^ocgr::': ['C12', 'C16'],
            r'^cov::': ['C08', 'C16'],
            r'^verif_lift_sniff_': ['C16'],
        },
    },
    'min_callsite': {
        'template': 'min_callsite.vrs', 'backend': 'verus',
        'serves': ['C16', 'C10'],
    },
    'min_lines': {
        'template': 'min_lines.vrs', 'backend': 'verus',
        'serves': ['C10'],
    },
    'reader_glue': {
        'template': 'reader_glue.vrs', 'backend': 'verus',
        'serves': ['C06', 'C05', 'C14'],
        'fn_props': {
            r'^Sequences::next$': ['C06', 'C05'],
            r'^Sequences::seq_stats$': ['C06', 'C05', 'C14'],
            r'^lemma_total_len': ['C06', 'C05', 'C14'],
            r'^verif_lift_gz_decoder$': ['C06', 'C05'],
        },
    },
    'seqformat': {
        'template': 'seqformat.vrs', 'backend': 'verus',
        'serves': ['C06'],
    },
    'seqformat_kani': {
        'backend': 'kani', 'crate': 'seqformat_h', 'serves': ['C06'], 'needs_lock': False,
        'generate': 'gen_seqformat',
        'harnesses': [
            {'name': 'seqformat_len_0_4', 'complete': False, 'thorough_only': True, 'timeout': 1500,
             'bound': 'all ASCII paths of exactly 0, 3 or 4 bytes (unwind 12)',
             'claim': 'SeqFormat::get returns Fastq/Fasta/None exactly by the .fq/.fastq/.fa/.fasta/.fna suffix after stripping .gz'},
        ],
        'trusted': ['SeqFormat::get is checked by Kani on its verbatim extracted text (enum + inherent impl), BOUNDED: see bounded_standins'],
    },
    'oligocgr_vec': {
        'template': 'oligocgr_vec.vrs', 'backend': 'verus',
        'serves': ['C12'],
    },
    'count_route': {
        'template': 'count_route.vrs', 'backend': 'verus',
        'serves': ['C07', 'C14'],
    },
    'cli_wiring': {
        'template': 'cli_wiring.vrs', 'backend': 'verus',
        'serves': ['C15'],
        'fn_props': {
            r'^verif_lift_cgr_': ['C15', 'C12', 'C11'],
            r'^verif_lift_min_arm$': ['C15', 'C16'],
        },
    },
    'pyglue': {
        'template': 'pyglue.vrs', 'backend': 'verus',
        'serves': ['C13', 'C01', 'C03', 'C04', 'C09', 'C11'],
    },
    'ctor': {
        'template': 'ctor.vrs', 'backend': 'verus',
        'serves': ['C15'],
        'fn_props': {
            r'^OligoComputer::new$': ['C03', 'C04', 'C14', 'C15'],
            r'^OligoComputer::set_': ['C15', 'C05'],
            r'^py::': ['C13'],
            r'^cov::CovComputer::new$': ['C08', 'C15'],
            r'^cov::CovComputer::set_': ['C15', 'C08'],
            r'^GB_4$': ['C05', 'C15'],
        },
    },
    'kmer_sym': {
        'template': 'kmer_sym.vrs', 'backend': 'verus',
        'serves': ['C02'],
    },
    'sched_rows': {
        'template': 'sched_rows.vrs', 'backend': 'verus',
        'serves': ['C05', 'C14'],
    },
    'sched_lists': {
        'template': 'sched_lists.vrs', 'backend': 'verus',
        'serves': ['C10'],
    },
    'sched_count': {
        'template': 'sched_count.vrs', 'backend': 'verus',
        'serves': ['C07'],
    },
    'posmaps_count': {
        'template': 'posmaps_count.vrs', 'backend': 'verus',
        'serves': ['C03'],
        # bundles of this unit that are decided by evaluation over a stated finite range (never counted as an unbounded proof)
        'bounded_bundles': {r'^lemma_closed_\d$|^lemma_count_closed_form$': 'closed form of the column count: by(compute) evaluation of the canonical count for k = 1..7 only'},
    },
    'n2k': {
        'template': 'n2k.vrs', 'backend': 'verus',
        'serves': ['C02', 'C03'],
    },
}

HOOK_COMMITS = []

PROPS = {
    'C01': {
        'units': ['kmer_gen', 'pyglue'], 'deps': [], 'replay': 'c01,c13',
        'level_text': 'Verus proves, for the verbatim text of KmerGenerator::new/next and every byte string and every k in 1..=31, '
                      'that each call returns exactly the next position whose k-window is clean with the exact forward and reverse codes '
                      '(unbounded: all lengths, all k); a ghost driver lifts this to the whole stream.',
        'level_note': 'trusted: Verus/Z3, vstd, the extractor (R1 visibility, R3 Iterator impl -> inherent impl); raw bytes 0x00-0x03 follow the table (unspecified by C01); '
                      'the Python wrapper __next__ is a one-line delegation (pyo3 glue unverified).',
        'not_reached': ['pyo3 glue of pybindings/src/kmer.rs (__next__ delegates to the verified next); transmute lifetime extension'],
    },
    'C02': {
        'units': ['kmer_gen', 'n2k', 'kmer_kani', 'kmer_sym'], 'deps': [], 'replay': 'c02,c01',
        'level_text': 'Verus proves for the verbatim rev_comp and numeric_to_kmer, all k <= 31 and all codes: rev_comp(x,k) equals the arithmetic reverse '
                      'complement rc_num (loop invariant over the accumulator form), rc_num is an involution below 4^k and equals the code of the '
                      'reverse-complemented text; decoding gives k letters over ACGT that re-encode to x mod 4^k; every pair of the iterator stream has '
                      'second == rc_num(first). Unbounded in k-range and sequence length.',
        'level_note': 'trusted: Verus/Z3, vstd, extractor rules R1 R3 R6 R8; R8 stub verif_rev_string (std chars().rev().collect() reverses a string) is assumed; '
                      'stream-reversal symmetry for whole sequences is proved as spec-level lemmas in unit kmer_sym (they reach the code through the stream theorem of kmer_gen).',
        'not_reached': [],
    },
    'C09': {
        'units': ['minimiser', 'pyglue'], 'deps': [], 'replay': 'c09,c13',
        'level_text': 'Verus proves for the verbatim MinimiserGenerator::new/next, every byte string and every 1 <= m <= w, m <= 31: the representation invariant, '
                      'absence of panics/overflow/unwrap-on-None, termination, and that every emitted triple carries a real minimiser (never the u64::MAX placeholder) '
                      'and spans at least one full window inside the sequence.',
        'level_note': 'trusted: Verus/Z3, vstd (VecDeque model), assumed std contracts VecDeque::get and cmp::min, extractor rules R1 R3. '
                      'Stage (ii) clauses (minimiser value, maximality, completeness of runs) are listed under not_reached until discharged.',
        'not_reached': ['pyo3 glue of pybindings/src/min.rs (__next__ delegates to next)'],
    },
    'C18': {
        'units': ['kmer_minimiser'], 'deps': [], 'replay': 'c18',
        'level_text': 'Verus proves for the verbatim KmerMinimiserGenerator::new/next, every byte string and every 1 <= m <= w <= 31: the same representation '
                      'invariant and run contract as the plain minimiser iterator (identical state machine, same clauses), plus the k-register invariants; '
                      'no panic, no overflow, termination, no placeholder value emitted.',
        'level_note': 'trusted: Verus/Z3, vstd, assumed std contracts VecDeque::get, cmp::min, R8 stub verif_clone_from (Vec<u64>::clone_from copies); extractor rules R1 R3 R8. '
                      'Stage (ii) clauses (equality of runs with the plain iterator as values, conservation of w-mers) are listed under not_reached until discharged.',
        'not_reached': [],
    },
    'C03': {
        'units': ['posmaps', 'header', 'ctor', 'posmaps_count', 'pyglue'], 'deps': ['kmer_gen', 'n2k', 'mmap_rows', 'batch_loops'], 'replay': 'c03,c12,c13',
        'level_text': 'Verus proves for the verbatim kmer_pos_maps and every k in 1..=15 that (pos_map, pos_kmer, count) is the order isomorphism between [0,count) '
                      'and the canonical k-mers (x <= revcomp(x)): canonical codes map to indices below count and back, the index->code map is strictly increasing '
                      '(hence index == rank in increasing code order), non-canonical entries are 0 and the map has no other key; and that the three header builders '
                      '(oligo.rs get_header, pybindings get_header, the table in OligoCgrComputer::new) return text_of(pos_kmer[i]) for every column i.',
        'level_note': 'trusted: Verus/Z3, vstd HashMap/HashSet model; assumed std contracts u64::pow (4^e), slice::sort (sorted permutation); R8 stubs Vec::from_iter(HashSet) '
                      '(duplicate-free enumeration), HashMap::iter (visits every entry once), chars().rev().collect(); imported contracts of rev_comp and numeric_to_kmer '
                      '(proved in units kmer_gen, n2k, run as dependencies). Unit posmaps_count proves (unbounded) that the index of a canonical k-mer equals its rank '
                      '(number of canonical codes below it) and that count == number of canonical codes; the closed form (4^k+4^(k/2))/2 / 4^k/2 is decided by evaluation for k <= 7 only: BOUNDED, listed under bounded_standins. '
                      'join(delim) of the header vector is std.',
        'not_reached': ['closed form of the column count for k > 7 (a fact about the canonical set alone, independent of the code once the rank contract holds)',
                        'String::join with the delimiter and the write of the header line (std)'],
    },
    'C04': {
        'units': ['oligo_vec', 'float_kani', 'ctor', 'pyglue'], 'deps': ['kmer_gen', 'posmaps', 'mmap_rows', 'batch_loops', 'reader_glue'], 'replay': 'c04,c01,c13',
        'level_text': 'Verus proves for the verbatim accumulation loop (three copies: oligo.rs vectorise_one, oligocgr.rs seq_to_kmer, pybindings vectorise_one), '
                      'every byte string shorter than 2^53 and every k in 1..=15: the row has one value per canonical column and column i holds of_nat(number of valid '
                      'windows whose canonical code is the column k-mer), raw, or divided by fmax(1, total valid windows) when normalised (all-zero row when there is no window); '
                      'every unchecked index is in bounds. Float operations are abstract (R9); the one arithmetic fact used (x + 1.0 exact below 2^53) is discharged by Kani on real f64.',
        'level_note': 'trusted: Verus/Z3, vstd, extractor rules R1 R5 (for over iterator -> loop/match) R7 R8 R9; R8 stub verif_div_all (iter_mut().for_each divides every element once); '
                      'get_unchecked(_mut) assumed with exactly their safety precondition; imported contracts KmerGenerator::new/next (unit kmer_gen) and posmaps_ok (unit posmaps) '
                      'run as dependencies; float division is the IEEE correctly rounded quotient and {:.6} formatting is std (not verified): "correct to 6 decimals" rests on those. '
                      'Reverse-complement / case / U-for-T invariance follows from the spec (nt ignores case, maps U to 3; canonical code is strand-symmetric).',
        'not_reached': ['text rendering of the row (format!("{:.6}"), join) and the file/CLI path: see C05', 'pyo3 argument conversion for the binding'],
    },
    'C14': {
        'units': ['mmap_rows', 'oligo_vec', 'cov_vec', 'count_route', 'reader_glue', 'sched_rows'], 'deps': ['kmer_gen', 'posmaps', 'header'], 'replay': 'c14,c08,c01',
        'level_text': 'Verus proves (a) every get_unchecked / get_unchecked_mut call site of the oligo accumulation loops (3 copies) against exactly the '
                      'safety precondition of the unchecked access, for every byte string and every k <= 15; (b) for the integer layout statements of vectorise_mmap, lifted '
                      'verbatim: per-row size equals the real row length for every delimiter length, the mapping size is header + records x row length (exact tiling), and each '
                      'row write covers exactly slot record.n (inside the mapping, disjoint for distinct ordinals).',
        'level_note': 'trusted: Verus/Z3; extractor M3 statement lifting + R8 join stub; dependency stubs: seq_stats/get_reader/SeqFormat::get (record count of the statistics pass == records iterated), '
                      'String::len/as_bytes byte length, MMWriter::write_at modelled by its stated safety precondition plus the slot discipline (the raw ptr::copy_nonoverlapping and the mmap itself are unsafe code outside the tools); '
                      'assumed: a normalised value in [0,1] formats to exactly 8 bytes with {:.6}; header line < 4 GiB. Coverage and counter unchecked accesses are decided in their own units when listed among the bundles.',
        'not_reached': ['the glue between the lifted fragments (closure captures, `let header_len = header.len()`, the Mutex-guarded record hand-out)', 'unsafe pointer copy inside MMWriter::write_at; memmap2'],
    },
    'C11': {
        'units': ['cgr', 'float_kani', 'batch_loops', 'cli_wiring', 'pyglue'], 'deps': ['reader_glue'], 'replay': 'c11,c13',
        'level_text': 'Verus proves for the verbatim cgr_maps (both copies) and vectorise_one (core and Python binding), for every byte string: the corner table is exactly '
                      '{A,a->(0,0); C,c->(0,S); G,g->(S,S); T,t,U,u->(S,0)} with no other key and the centre is (S/2,S/2); Ok(v) iff every byte is a nucleotide letter, then one point per base and '
                      'point i == midpoint(corner(base i), point i-1 or centre) (so it depends only on the first i bases); any other byte gives Err and no coordinates. Spec-level lemma: every '
                      'point lies in the square and in the half square of its base corner, from the one-step float axiom A3 which Kani discharges on real f64 for S in [1,2^20].',
        'level_note': 'trusted: Verus/Z3, vstd HashMap model; extractor rules R1 R2 R6 R7 R8 R9 R10; R8 stub array-of-pairs.iter().cloned().collect() == successive inserts; float operations '
                      'abstract (R9) with axiom A3 (Kani) and S == of_nat(n); containment in the sub-square of side S/2^j for j > 1 and exact dyadic values need real-number float semantics: not decided. '
                      'The file path (.unwrap() on a rejected record panics inside rayon) is process behaviour.',
        'not_reached': ['sub-square containment beyond one halving (j > 1) and exact dyadic values', 'file-level batching/ordering of cgr.rs::vectorise (see C05-style loop contracts if listed)', 'pyo3 mapping of Err to ValueError'],
    },
    'C08': {
        'units': ['cov_vec', 'batch_loops', 'float_kani', 'ctor'], 'deps': ['kmer_gen', 'count_route', 'reader_glue'], 'replay': 'c08,c07,c01',
        'level_text': 'Verus proves for the verbatim CovComputer::vectorise_one, every byte string, every k <= 31, every bin size and bin count >= 1 and every counts table: the row has '
                      'bin-count entries and entry b is of_nat(number of valid windows whose canonical k-mer has multiplicity c in the table with min(c / bin-size, bin-count - 1) == b), absent k-mers '
                      'counting 0, raw or divided by fmax(1, total); the unchecked index is in bounds. For the lifted batch loop of compute_coverages: every record is rendered exactly once, in reader order, including the final flush.',
        'level_note': 'trusted: Verus/Z3, vstd HashMap model; extractor rules R1 R5 R7 R8 R9, M3 lifting with the rendering/writing statements replaced by a stub (rayon par_iter order, format!, BufWriter assumed); '
                      'float axiom A1 (Kani) and A4 `(c as f64 / b as f64).floor() as usize == c / b` (assumed, stated as the contract of stub verif_floor_div; CBMC did not finish on it); cmp::min, get_unchecked_mut assumed std contracts; '
                      'the counts table itself (count + merge) is C07; reading kmers.counts back (text parsing) is std.',
        'not_reached': ['build_table (counting and merging: C07)', 'parsing of kmers.counts', 'thread-count independence rests on rayon collect order (assumed)'],
    },
    'C16': {
        'units': ['batch_loops', 'min_callsite', 'minimiser', 'kmer_minimiser'], 'deps': ['kmer_gen', 'oligo_vec', 'cov_vec', 'cgr', 'oligocgr_vec', 'count_route', 'mmap_rows', 'posmaps', 'reader_glue'], 'replay': 'c16',
        'level_text': 'Every Verus bundle includes absence of panics (overflow, out-of-bounds, unwrap on None, unreachable panic!) for ALL inputs meeting the stated precondition. For C16 the '
                      'deciding bundles are: the format-sniffing statements (3 copies) with a buffer of ANY length including 0; the four lifted batch loops (one row rendered per record, including '
                      'records with no bases and the final flush); the two minimiser call sites of misc (window size 0, record shorter than m) against the precondition of MinimiserGenerator::new; '
                      'both minimiser iterators (no panic, termination, no u64::MAX placeholder ever emitted) for every byte string.',
        'level_note': 'trusted: as in C05/C08/C09/C18 (stubs for the record iterator, the row renderer/writer, imported precondition of MinimiserGenerator::new). Process-level behaviour (exit status, hangs, '
                      'stderr, clap) is outside any function contract: not decided. KmerGenerator and the row functions are total on every byte string by their own contracts (C01/C04/C08).',
        'not_reached': ['exit status / abort / hang of the process', 'counter subcommand degenerate inputs (C07 unit, if listed)', 'mmap of a zero-length output (memmap2 behaviour)'],
    },
    'C06': {
        'units': ['reader_glue', 'seqformat'], 'thorough_units': ['seqformat_kani'], 'deps': [], 'replay': 'c06',
        'level_text': 'Narrow claim. Verus proves for the verbatim Sequences::next (both arms) against a stub of the bio parser: each delivered record is the next record of the parser, '
                      'numbered with the count of records delivered before it (0,1,2,... without gaps), id and bases copied unchanged, None exactly when the parser is exhausted and the counter untouched; '
                      'and for the lifted decoder-construction statement of get_reader against a stub of flate2 (contracts from its documentation): the decoder used for .gz input decodes ALL members; '
                      'and for the verbatim SeqFormat::get, every path: the result is exactly the documented suffix table (.fq/.fastq -> FASTQ, .fa/.fasta/.fna -> FASTA, after stripping every trailing .gz, nothing else) over assumed contracts of str::ends_with / trim_end_matches.',
        'level_note': 'assumed, not verified: bio::io::{fasta,fastq} record boundaries, ids (first word), CRLF / wrapping / final newline handling, FASTQ; flate2 decoder semantics (stub contracts, exercised against the real flate2 '
                      'by the witness search); seq_stats and iteration use the same parser (equal by determinism). SeqFormat::get additionally runs under Kani on its verbatim extracted text with the REAL std string functions, BOUNDED (thorough tier only, paths of 0/3/4 ASCII bytes), never counted as proved - a cross-check of the assumed string contracts.',
        'not_reached': ['record parsing inside bio (ids, CRLF, wrapping, FASTQ)', 'summary statistics loop (bio records() again)'],
    },
    'C05': {
        'units': ['mmap_rows', 'batch_loops', 'reader_glue', 'sched_rows'], 'deps': ['oligo_vec', 'kmer_gen', 'posmaps'], 'replay': 'c05,c04',
        'level_text': 'Narrow claim: the sequential obligations that make row i belong to record i are proved; schedule independence then rests on assumed contracts of Mutex, rayon::scope and par_iter/collect. '
                      '(1) Sequences::next hands out ordinal n == number of records delivered before (it takes &mut self, so calls are totally ordered); (2) mmap path: the write offset and length of a row are '
                      'exactly slot record.n of the exact tiling header + records x row length - a function of the record alone, so the file does not depend on write order; (3) batch path: the lifted loop renders every record exactly once in reader order including the final flush; (4) unit sched_rows proves, over sequences of writes, that pairwise disjoint writes give the same file in every order '
                      '(lemma_rows_schedule_independent) and that with one write per record into its slot, in ANY order, byte x of slot r is byte x of the row of record r and the header is untouched (theorem_rows_any_order).',
        'level_note': 'assumed, not verified: std::sync::Mutex mutual exclusion, rayon::scope joins all tasks, par_iter().map().collect() preserves order, BufWriter/mmap flush; worker interleavings are NOT enumerated '
                      '(Kani has no threads; no Verus model of std Mutex/rayon). FASTA/FASTQ/gzip equivalence is parser behaviour (C06). Header = exactly one first line: the lifted layout fragment (header slot) and the header-write statement.',
        'not_reached': ['worker interleavings (assumed primitives)', 'container equivalence (bio/flate2)', 'closure glue between the lifted fragments'],
    },
    'C12': {
        'units': ['oligocgr_vec', 'oligo_vec', 'header', 'cgr', 'batch_loops', 'float_kani', 'cli_wiring'], 'deps': ['kmer_gen', 'posmaps', 'n2k', 'reader_glue'], 'replay': 'c12,c01',
        'level_text': 'Verus proves for the verbatim OligoCgrComputer::vectorise_one: the row has one triple per canonical column, in column order; (x,y) is the chaos-game end point '
                      '(midpoint recurrence from the centre) of the column k-mer text - a function of the column alone, hence the same in every row - and f is exactly the value the oligo row contract (C04, '
                      'same spec, proved for seq_to_kmer) gives that column; the record is never rejected. The k-mer table, the private cgr_maps copy and the batch loop of this subcommand are under the C03/C11/C05 contracts.',
        'level_note': 'trusted: as C04 and C11 (float abstraction R9 with axioms A1/A3 by Kani; R8 zip -> index loop over min(len,len); String::as_bytes of ASCII text == its characters (assumed UTF-8 fact)); imported contracts of seq_to_kmer, '
                      'kmer_pos_maps, numeric_to_kmer run as dependencies. OligoCgrComputer::new itself (wiring of the tables into the struct) is not extracted: the contract takes the tables as preconditions.',
        'not_reached': ['OligoCgrComputer::new wiring (tables -> struct fields)', 'text rendering "({},{},{})" and file writing', 'thread independence rests on rayon collect order (assumed)'],
    },
    'C13': {
        'units': ['oligo_vec', 'header', 'cgr', 'pyglue', 'ctor'], 'deps': ['kmer_gen', 'posmaps', 'n2k', 'minimiser'], 'replay': 'c13',
        'level_text': 'Narrow claim. The loops that the Python binding duplicates from the core (OligoComputer::vectorise_one, get_header, CgrComputer::vectorise_one in pybindings/src) are extracted and proved against the SAME '
                      'postconditions as the core functions (C04, C03, C11) over the UTF-8 bytes of the string, so core and binding compute the same row / header / points; non-ASCII characters are bytes >= 0x80, '
                      'which the spec treats as ambiguous / non-nucleotide bytes. The iterator wrappers __next__/to_acgt are single delegating calls to the functions verified under C01/C02/C09.',
        'level_note': 'not verified: pyo3 argument conversion and the mapping of Err to ValueError, the transmute lifetime extension over Arc<[u8]> (unsafe, outside both tools), rayon batch order in vectorise_batch (assumed), '
                      'interpreter behaviour. String::as_bytes is the UTF-8 encoding (assumed). No Python interpreter is run by this check.',
        'not_reached': ['pyo3 glue, GIL, error mapping', 'unsafe transmute in pybindings/src/kmer.rs and min.rs', 'vectorise_batch order (rayon collect)'],
        'fn_filter': r'^py::',
    },
    'C07': {
        'units': ['count_route', 'sched_count'], 'deps': ['kmer_gen', 'n2k', 'reader_glue'], 'replay': 'c07,c01',
        'level_text': 'Narrow claim. Verus proves for the lifted per-record loop of count_chunk, every byte string, k <= 31 and every partition count >= 1: each valid window causes exactly one increment, of its '
                      'canonical code, in partition (code mod n_parts), nothing else in the table changes, and the unchecked partition index is in bounds; hence a k-mer lives in exactly one partition across all chunks. '
                      'ACGT rendering uses numeric_to_kmer (C02 contract). Schedule clause (one chunk): units sched_count / count_route prove, as lemmas over sequences of atomic updates, that the table reached '
                      'depends only on the MULTISET of updates performed (lemma_schedule_independent), that the per-record loop performs exactly the updates ops_of(record) (lemma_counted_is_apply), and hence '
                      '(theorem_any_schedule) every execution - any thread count, hand-out order or interleaving - that performs the updates the records call for reaches the table a single worker reaches in input order.',
        'level_note': 'assumed, not verified: scc entry().and_modify().or_insert() is an atomic read-modify-write (stub verif_incr; a change to a non-atomic read+insert no longer matches the rewrite and is reported undecided); '
                      'fewer than 2^32 occurrences per k-mer (u32 counters); n_parts >= 1 (init takes max(threads, ..) with threads >= 1; float ceil not modelled). NOT reached: worker interleavings, the limit/EOF race, '
                      'chunk files, merge (text parsing, file deletion), progress bar - concurrency and I/O through scc/rayon/fs.',
        'not_reached': ['worker interleavings and chunk boundaries', 'merge(): parsing chunk files, summing, deleting temporary files', 'init(): partition count from float arithmetic'],
    },
    'C10': {
        'units': ['min_lines', 'min_callsite', 'sched_lists'], 'deps': ['minimiser', 'n2k', 'reader_glue'], 'replay': 'c10',
        'level_text': 'Narrow claim. Verus proves for the per-record bodies of seq_to_min and bin_sequences, lifted verbatim and run against the `next` contract that unit `minimiser` proves for the real '
                      'MinimiserGenerator (C09): for every record, every m in 1..=28 and w = 0 or w > m, (1) the iterator is drained and the ghost trace of what it handed out is the COMPLETE left-to-right list of '
                      'the record\'s maximal runs for the effective window (w = 0: one window spanning the whole record, never narrower than m); (2) the s2m line is the record id, then exactly one entry per run in '
                      'that order, each rendering (text_of(minimiser), start, end), then the newline entry; (3) the m2s table after the record equals the table before with exactly those runs appended, each under '
                      'its minimiser text with (record id, start, end), and nothing else changed. Both listings are therefore functions of the same run list per record - the inversion relation at record granularity. Schedule clause: unit sched_lists proves, over sequences of atomic appends, that the '
                      'keys of the table and the MULTISET of entries under every key depend only on the multiset of appends performed, not on their order (lemma_lists_schedule_independent).',
        'level_note': 'assumed, not verified: scc entry().and_modify(push).or_insert(vec![item]) is an atomic append (stub verif_upsert; the rewrite pattern demands the same item text in both closures, anything else is '
                      'reported undecided); Mutex-guarded record hand-out and line write, rayon scope join; format!("{}:{}-{}") and {v:?} rendering (uninterpreted fmt_run), join("\\t"), the final scan() that writes the '
                      'table; FASTA/FASTQ parsing (C06). Worker interleavings are NOT enumerated (no thread support in Kani, no Verus model of scc/Mutex); the schedule-independence clause rests on those assumed primitives. '
                      'Bounded stand-in c10: real seq_to_min / bin_sequences files against the executable run spec (lines as multisets, m2s as exact inversion), 1..16 workers.',
        'not_reached': ['worker interleavings (assumed primitives)', 'text rendering and the final table dump', 'closure glue between the lifted fragments (record hand-out, progress bar)'],
    },
    'C15': {
        'units': ['cli_wiring', 'ctor'], 'deps': ['mmap_rows', 'batch_loops', 'reader_glue', 'count_route', 'min_lines', 'cov_vec'], 'replay': 'c15,c04,c08',
        'level_text': 'Narrow claim. Verus proves for the lifted option-to-setter statements of the oligo, coverage, counter and minimiser arms of cli(), against stub computers whose setters record a ghost configuration: '
                      'csv/tsv/spc change only the delimiter (",", tab, space), the header flag only sets header, counts only flips normalisation, --acgt only sets the rendering flag, the thread option is applied iff > 0 and touches nothing else, '
                      'k / bins / memory / alt-input are passed through unchanged; and every value accepted by the clap value_parser ranges (read from the attribute text on every run) satisfies the preconditions of the library '
                      '(k <= 15 for composition, k <= 31 for counting, bin sizes >= 1, m <= 30, a window of 0 or longer than m - otherwise the arm returns after a diagnostic without calling the library).',
        'level_note': 'assumed / not verified: clap parses the options as declared and enforces the ranges; stub computers stand for the real setters (each real setter is a one-line field assignment, not extracted); '
                      'exit status, "without producing output", diagnostics text and CLI == library equality on files are process behaviour outside any function contract. The cgr arm (float default for the square size) is not lifted.',
        'not_reached': ['clap parsing/diagnostics and process exit status', 'the cgr arm of cli()', 'equality of CLI output and library output on files', 'stdin input'],
    },
}

NOT_APPLICABLE = {
    'C17': 'history property of the file system (truncate-on-open, stale temp files of earlier runs): behaviour of '
           'File::create / OpenOptions / set_len inside std and the OS, no state a function contract here can observe',
}
