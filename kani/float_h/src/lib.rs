//! Kani discharge of the float axioms used by rule R9 (DESIGN.md 3.3).  Loop-free harnesses over
//! full-domain symbolic inputs: complete proofs on real IEEE-754 f64 (CBMC float model).
#[cfg(kani)]
mod h {
    /// A1: adding 1.0 to an integer-valued f64 below 2^53 is exact
    #[kani::proof]
    fn f64_succ_exact() {
        let n: u64 = kani::any();
        kani::assume(n < (1u64 << 53));
        let x = n as f64;
        let y = x + 1_f64;
        assert!(y == (n + 1) as f64);
        assert!(y as u64 == n + 1);
        assert!(x as u64 == n);
    }

    /// A3: one chaos-game step stays in the half square of its corner, for S in [1, 2^20]
    #[kani::proof]
    fn cgr_midpoint_half_square() {
        let s: u32 = kani::any();
        kani::assume(s >= 1 && s <= (1 << 20));
        let sz = s as f64;
        let m: f64 = kani::any();
        kani::assume(m >= 0.0 && m <= sz);
        let lo = (0.0 + m) / 2.0;
        let hi = (sz + m) / 2.0;
        assert!(lo >= 0.0 && lo <= sz / 2.0);
        assert!(hi >= sz / 2.0 && hi <= sz);
        assert!(hi >= 0.0 && lo <= sz);
    }

    /// A3 (centre): S/2 lies in [0, S] for S in [1, 2^20]
    #[kani::proof]
    fn cgr_centre_in_square() {
        let s: u32 = kani::any();
        kani::assume(s >= 1 && s <= (1 << 20));
        let sz = s as f64;
        assert!(sz / 2.0 >= 0.0 && sz / 2.0 <= sz);
    }
}
