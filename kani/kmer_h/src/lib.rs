//! Kani harnesses over the REAL kmer crate (path dependency on /repo/kmer; no extraction).
//! Every harness here is a complete proof: the only loops are bounded by the operand width
//! (k <= 31 rounds) and are unrolled with unwinding assertions on.
#[cfg(kani)]
mod h {
    use kmer::kmer::KmerGenerator;

    /// C02: rev_comp is an involution and stays below 4^k, for all k in 1..=31 and all x < 4^k
    #[kani::proof]
    #[kani::unwind(33)]
    fn revcomp_involution() {
        let k: usize = kani::any();
        kani::assume(k >= 1 && k <= 31);
        let x: u64 = kani::any();
        kani::assume(x < (1u64 << (2 * k)));
        let y = KmerGenerator::rev_comp(x, k);
        assert!(y < (1u64 << (2 * k)));
        assert!(KmerGenerator::rev_comp(y, k) == x);
    }

    /// C02: the low digit of x becomes the complemented top digit of rev_comp(x, k)
    #[kani::proof]
    #[kani::unwind(33)]
    fn revcomp_digits() {
        let k: usize = kani::any();
        kani::assume(k >= 1 && k <= 31);
        let x: u64 = kani::any();
        kani::assume(x < (1u64 << (2 * k)));
        let j: usize = kani::any();
        kani::assume(j < k);
        let y = KmerGenerator::rev_comp(x, k);
        let dx = (x >> (2 * j)) & 3;
        let dy = (y >> (2 * (k - 1 - j))) & 3;
        assert!(dy == 3 - dx);
    }
}
