#!/usr/bin/env python3
"""C13 bounded stand-in / assumption test: the REAL Python extension (pip crate, built from /repo's current tree)
against a direct transcription of the spec of DESIGN.md section 3.  Prints one JSON object like the Rust replay program."""
import json, random, sys

def nt(b):
    return {65: 0, 97: 0, 67: 1, 99: 1, 71: 2, 103: 2, 84: 3, 116: 3, 85: 3, 117: 3}.get(b, 4)

def fcode(w):
    x = 0
    for b in w: x = x * 4 + nt(b)
    return x

def rcode(w):
    x = 0
    for b in reversed(w): x = x * 4 + (3 - nt(b))
    return x

def clean(w): return all(nt(b) < 4 for b in w)

def kmers_spec(s, k):
    return [(fcode(s[p - k:p]), rcode(s[p - k:p])) for p in range(k, len(s) + 1) if clean(s[p - k:p])]

def rc_num(x, k):
    r = 0
    for _ in range(k):
        r = r * 4 + (3 - x % 4); x //= 4
    return r

def text_of(x, k):
    return ''.join('ACGT'[(x >> (2 * (k - 1 - i))) & 3] for i in range(k))

def canon_cols(k): return [x for x in range(4 ** k) if x <= rc_num(x, k)]

def runs_spec(s, w, m):
    out, cur = [], None
    for i in range(0, len(s) - w + 1):
        win = s[i:i + w]
        if not clean(win):
            if cur: out.append(cur); cur = None
            continue
        mn = min(min(fcode(win[j:j + m]), rcode(win[j:j + m])) for j in range(w - m + 1))
        if cur and cur[0] == mn: cur = (mn, cur[1], i + w)
        else:
            if cur: out.append(cur)
            cur = (mn, i, i + w)
    if cur: out.append(cur)
    return out

def cgr_spec(s, size):
    corner = {0: (0.0, 0.0), 1: (0.0, float(size)), 2: (float(size), float(size)), 3: (float(size), 0.0)}
    p = (size / 2.0, size / 2.0); out = []
    for b in s:
        if nt(b) > 3 or b < 4: return None
        c = corner[nt(b)]
        p = ((c[0] + p[0]) / 2.0, (c[1] + p[1]) / 2.0); out.append(p)
    return out

def main():
    seed = int(sys.argv[1]) if len(sys.argv) > 1 else 1
    thorough = len(sys.argv) > 2 and sys.argv[2] == 'thorough'
    import pykmertools as kt
    rng = random.Random(seed)
    cases = 0
    def fail(**kw):
        print(json.dumps({'found': True, 'cases': cases, 'witness': {k: str(v) for k, v in kw.items()}})); sys.exit(0)
    alphabet = 'ACGTacgtuUNn-R'
    specials = ['AC\u1e97GT', '\ufb05ACGT', '\u1e9aCGTA', 'AC\ufb06GT', 'ac\u00dfgt', '', ' ACGT', '\tACGTACGT', '\nACGTAC', 'ACGT ', ' ACGTACGTA', 'ACGéTACGT', 'ACŁGTACGT', '乁ACGTACGT', 'ACGTACGTŃ', 'NNNN', 'A']
    def rnd(n): return ''.join(rng.choice(alphabet) for _ in range(n))
    seqs = specials + [rnd(rng.randrange(1, 60)) for _ in range(400 if thorough else 120)]
    for s in seqs:
        b = s.encode('utf-8')
        for k in (1, 2, 5, 13, 31):
            cases += 1
            got = list(kt.KmerGenerator(s, k))
            if got != kmers_spec(b, k): fail(what='KmerGenerator', seq=repr(s), k=k, expected=kmers_spec(b, k)[:4], actual=got[:4])
        for (w, m) in ((3, 2), (5, 3), (10, 4), (31, 7), (4, 4)):
            cases += 1
            got = list(kt.MinimiserGenerator(s, w, m))
            if got != runs_spec(b, w, m): fail(what='MinimiserGenerator', seq=repr(s), w=w, m=m, expected=runs_spec(b, w, m)[:4], actual=got[:4])
    # long strings: thousands of items from one iterator object (beyond any prefetch / block size a binding might use),
    # lengths around powers of two so that an item count of exactly 2^n, 2^n + 1 ... occurs
    for n in (1024, 1025, 1026, 1030, 2048, 2051, 4100, 5000, 70000):
        for s in (''.join(rng.choice('ACGT') for _ in range(n)), ''.join(rng.choice('ACGTACGTACGTACGTN') for _ in range(n))):
            b = s.encode('utf-8')
            for k in (1, 3, 7):
                if n > 6000 and k != 3: continue
                cases += 1
                got = list(kt.KmerGenerator(s, k))
                want = kmers_spec(b, k)
                if got != want:
                    i = next((j for j in range(min(len(got), len(want))) if got[j] != want[j]), min(len(got), len(want)))
                    fail(what='KmerGenerator on a long string', seq='<%d random bases, seed %d>' % (n, seed), k=k, items=len(got), expected_items=len(want), first_difference_at=i)
            if n <= 6000:
                for (w, m) in ((3, 2), (10, 4)):
                    cases += 1
                    got = list(kt.MinimiserGenerator(s, w, m))
                    want = runs_spec(b, w, m)
                    if got != want: fail(what='MinimiserGenerator on a long string', seq='<%d random bases, seed %d>' % (n, seed), w=w, m=m, items=len(got), expected_items=len(want))
    g = kt.KmerGenerator('ACGT', 4)
    for x in (0, 27, 255, 228):
        cases += 1
        if g.to_acgt(x) != text_of(x, 4): fail(what='to_acgt', x=x, actual=g.to_acgt(x))
    # oligo vectors, header, batch == per-sequence list in argument order, two computers with different k in one process
    comps = {k: kt.OligoComputer(k) for k in (1, 2, 3, 4, 5)}
    for k, oc in comps.items():
        cols = canon_cols(k)
        cases += 1
        if oc.get_header() != [text_of(x, k) for x in cols]: fail(what='get_header', k=k, actual=oc.get_header()[:6])
        batch = [s for s in seqs if len(s) < 40][:200] * (20 if thorough else 12)
        for norm in (True, False):
            rows = oc.vectorise_batch(batch, norm)
            cases += len(batch)
            if len(rows) != len(batch): fail(what='vectorise_batch length', k=k, norm=norm, actual=len(rows))
            for s, row in zip(batch, rows):
                cnt = [0] * len(cols); tot = 0
                for f, r in kmers_spec(s.encode('utf-8'), k):
                    cnt[cols.index(min(f, r))] += 1; tot += 1
                want = [c / max(1, tot) for c in cnt] if norm else [float(c) for c in cnt]
                if row != want: fail(what='vectorise_batch row', seq=repr(s), k=k, norm=norm, expected=want[:6], actual=row[:6])
                one = oc.vectorise_one(s, norm)
                if one != want: fail(what='vectorise_one', seq=repr(s), k=k, norm=norm, expected=want[:6], actual=one[:6])
    # CGR: midpoint rule, ValueError on any other character (including every non-ASCII one), never a crash
    for size in (1, 4, 1000):
        cg = kt.CgrComputer(size)
        for s in seqs + ['ACGTU' * 30] + [chr(c) + 'ACGT' for c in range(0x80, 0x250)] + ['AC' + chr(c) for c in (0x4e41, 0x0141, 0x0143, 0x0147, 0x0154, 0x0161)]:
            cases += 1
            want = cgr_spec(s.encode('utf-8'), size)
            try:
                got = cg.vectorise_one(s)
                if want is None: fail(what='CgrComputer.vectorise_one accepted a non-nucleotide', seq=repr(s), size=size, actual=got[:3])
                if [tuple(p) for p in got] != want: fail(what='CgrComputer.vectorise_one', seq=repr(s), size=size, expected=want[:3], actual=got[:3])
            except ValueError:
                if want is not None: fail(what='CgrComputer.vectorise_one raised on a nucleotide string', seq=repr(s), size=size)
        good = [s for s in seqs if cgr_spec(s.encode('utf-8'), size) is not None][:50]
        cases += 1
        if [[tuple(p) for p in r] for r in cg.vectorise_batch(good)] != [cgr_spec(s.encode('utf-8'), size) for s in good]: fail(what='CgrComputer.vectorise_batch', size=size)
        # a batch with a non-nucleotide somewhere: the per-sequence result of that element is ValueError, so the batch call
        # raises it - a returned list cannot be "exactly the list of per-sequence results" (a shorter list drops an argument)
        for bad_at in (0, 1, len(good) // 2, len(good)):
            for bad_s in ('ACGNT', 'AC-GT', 'AC' + chr(0x0141)):
                cases += 1
                mixed = good[:bad_at] + [bad_s] + good[bad_at:]
                try:
                    got = cg.vectorise_batch(mixed)
                    fail(what='CgrComputer.vectorise_batch returned a list for a batch containing a non-nucleotide', size=size, bad_index=bad_at, bad_seq=repr(bad_s), batch=len(mixed), returned=len(got))
                except ValueError:
                    pass
        # a large batch of distinct sequences, several times: result i belongs to argument i whatever the pool does
        big = [('ACGT' * (1 + i % 7)) + 'ACGT'[i % 4] * (i % 11) + 'GATC'[(i // 4) % 4] for i in range(3000)]
        want_big = [cgr_spec(s.encode('utf-8'), size) for s in big]
        for rep in range(3):
            cases += 1
            got_big = [[tuple(p) for p in r] for r in cg.vectorise_batch(big)]
            if got_big != want_big:
                bad = next(i for i in range(len(big)) if i >= len(got_big) or got_big[i] != want_big[i])
                fail(what='CgrComputer.vectorise_batch order', size=size, batch=len(big), first_wrong_index=bad)
    # counts beyond 2^24 (where a single-precision accumulator stops counting): one sequence of 17 M bases
    if True:
        n = 17_000_000
        big = 'A' * n
        for norm in (False, True):
            cases += 1
            one = comps[1].vectorise_one(big, norm)
            want = [1.0, 0.0] if norm else [float(n), 0.0]
            if one != want: fail(what='vectorise_one on a long homopolymer', seq="'A' * %d" % n, k=1, norm=norm, expected=want, actual=one)
        del big
    # an empty batch gives an empty list, a batch of empty strings one empty result each
    cases += 3
    if kt.CgrComputer(4).vectorise_batch([]) != []: fail(what='CgrComputer.vectorise_batch([])', actual=kt.CgrComputer(4).vectorise_batch([]))
    if kt.CgrComputer(4).vectorise_batch(['', '']) != [[], []]: fail(what="CgrComputer.vectorise_batch(['', ''])", actual=kt.CgrComputer(4).vectorise_batch(['', '']))
    if comps[2].vectorise_batch([], True) != []: fail(what='OligoComputer.vectorise_batch([])', actual=comps[2].vectorise_batch([], True))
    # an iterator object is consumed exactly once, however it is driven: next() then list(), list() twice, iter() in between
    for s in ('ACGTTGCAAGTCCATG', 'ACGNNACGTACGTTGAC', 'AC'):
        b = s.encode()
        cases += 2
        g = kt.KmerGenerator(s, 3)
        want = kmers_spec(b, 3)
        first = [next(g)] if want else []
        rest = list(g)
        again = list(g)
        if first + rest != want or again != []: fail(what='KmerGenerator driven by next() then list() twice', seq=repr(s), k=3, expected=want[:4], actual=(first + rest)[:4], after_exhaustion=again[:3])
        mg = kt.MinimiserGenerator(s, 5, 3)
        wantm = runs_spec(b, 5, 3)
        firstm = [next(mg)] if wantm else []
        restm = [x for x in iter(mg)]
        againm = list(mg)
        if firstm + restm != wantm or againm != []: fail(what='MinimiserGenerator driven by next() then a for loop, then list()', seq=repr(s), w=5, m=3, expected=wantm[:4], actual=(firstm + restm)[:4], after_exhaustion=againm[:3])
    # iterators stay valid after the Python string is released
    it = kt.KmerGenerator(''.join(['ACGT'] * 50), 3)
    import gc; gc.collect()
    cases += 1
    if list(it) != kmers_spec(('ACGT' * 50).encode(), 3): fail(what='iterator after release of the source string')
    print(json.dumps({'found': False, 'cases': cases, 'witness': None}))

if __name__ == '__main__':
    main()
