//! verif_replay <cmd> [--seed N] [--tier quick|thorough] [--input '<json>']
//! Prints one JSON object: {"found":bool,"cases":N,"witness":{...}|null}
mod spec;
mod p_kmer;
mod p_min;
mod p_posmaps;
mod p_cli;
mod p_count;
mod p_reader;
mod p_degen;
mod p_cov;
mod p_cgr;
mod p_rows;
mod p_lines;
mod util;

use std::collections::HashMap;

pub struct Opts {
    pub seed: u64,
    pub thorough: bool,
    pub input: Option<HashMap<String, String>>,
}

/// tiny flat-JSON reader for {"k":"v","n":"3"} (values always strings) - avoids a serde dependency
fn parse_flat(s: &str) -> HashMap<String, String> {
    let mut out = HashMap::new();
    let b: Vec<char> = s.chars().collect();
    let mut i = 0;
    let mut strs: Vec<String> = Vec::new();
    while i < b.len() {
        if b[i] == '"' {
            let mut t = String::new();
            i += 1;
            while i < b.len() && b[i] != '"' {
                if b[i] == '\\' && i + 1 < b.len() {
                    // keep \xNN escapes of `show` intact: JSON encodes the backslash as \\
                    if b[i + 1] == '\\' { t.push('\\'); i += 2; continue; }
                    if b[i + 1] == '"' { t.push('"'); i += 2; continue; }
                }
                t.push(b[i]);
                i += 1;
            }
            strs.push(t);
        }
        i += 1;
    }
    let mut it = strs.into_iter();
    while let (Some(k), Some(v)) = (it.next(), it.next()) {
        out.insert(k, v);
    }
    out
}

pub fn jstr(s: &str) -> String {
    let mut o = String::from("\"");
    for c in s.chars() {
        match c {
            '"' => o.push_str("\\\""),
            '\\' => o.push_str("\\\\"),
            '\n' => o.push_str("\\n"),
            c => o.push(c),
        }
    }
    o.push('"');
    o
}

pub struct Outcome {
    pub cases: u64,
    pub witness: Option<Vec<(String, String)>>,
}

fn main() {
    let args: Vec<String> = std::env::args().collect();
    if args.len() >= 5 && args[1] == "stdin-oligo" {
        p_rows::stdin_child(&args[2..]);
        return;
    }
    if args.len() >= 3 && args[1] == "stdin-cli" {
        p_cli::stdin_cli_child(&args[2..]);
        return;
    }
    if args.len() < 2 {
        eprintln!("usage: verif_replay <cmd> [--seed N] [--tier T] [--input JSON]");
        std::process::exit(2);
    }
    let mut o = Opts { seed: 1, thorough: false, input: None };
    let mut i = 2;
    while i < args.len() {
        match args[i].as_str() {
            "--seed" => { o.seed = args[i + 1].parse().unwrap_or(1); i += 1; }
            "--tier" => { o.thorough = args[i + 1] == "thorough"; i += 1; }
            "--input" => {
                let m = parse_flat(&args[i + 1]);
                if m.contains_key("stale_output") { std::env::set_var("VERIF_STALE_OUTPUT", "1"); }
                if let Some(k) = m.get("input_kind") { std::env::set_var("VERIF_INPUT_KIND", k); }
                if let Some(k) = m.get("ids") { std::env::set_var("VERIF_IDS", k); }
                o.input = Some(m); i += 1;
            }
            _ => {}
        }
        i += 1;
    }
    if o.seed == 0 { o.seed = 1; }
    let res = std::panic::catch_unwind(|| match args[1].as_str() {
        "c01" => p_kmer::c01(&o),
        "c02" => p_kmer::c02(&o),
        "c09" => p_min::c09(&o),
        "c10" => p_lines::c10(&o),
        "c03" => p_posmaps::c03(&o),
        "c04" => p_rows::c04(&o),
        "c07" => p_count::c07(&o),
        "c05" => p_rows::c05(&o),
        "c06" => p_reader::c06(&o),
        "c16" => p_degen::c16(&o),
        "c08" => p_cov::c08(&o),
        "c11" => p_cgr::c11(&o),
        "c12" => { let a = p_cgr::c12(&o); if a.witness.is_some() || o.input.is_some() { a } else { let b = p_cli::c12_cli(&o); Outcome { cases: a.cases + b.cases, witness: b.witness } } }
        "c15" => p_cli::c15(&o),
        "c14" => p_rows::c14(&o),
        "c18" => p_min::c18(&o),
        other => {
            eprintln!("unknown command {}", other);
            std::process::exit(2);
        }
    });
    let out = match res {
        Ok(x) => x,
        Err(_) => Outcome { cases: 0, witness: Some(vec![("panic".into(), "the search itself panicked outside a guarded call".into())]) },
    };
    match out.witness {
        Some(w) => {
            let body: Vec<String> = w.iter().map(|(k, v)| format!("{}:{}", jstr(k), jstr(v))).collect();
            println!("{{\"found\":true,\"cases\":{},\"witness\":{{{}}}}}", out.cases, body.join(","));
        }
        None => println!("{{\"found\":false,\"cases\":{},\"witness\":null}}", out.cases),
    }
}
