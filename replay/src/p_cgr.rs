//! C11: whole-sequence CGR through the public file API against the midpoint recurrence
use crate::spec::*;
use crate::util::*;
use crate::{Opts, Outcome};

pub fn corner(b: u8, s: f64) -> Option<(f64, f64)> {
    match b {
        b'A' | b'a' => Some((0.0, 0.0)),
        b'C' | b'c' => Some((0.0, s)),
        b'G' | b'g' => Some((s, s)),
        b'T' | b't' | b'U' | b'u' => Some((s, 0.0)),
        _ => None,
    }
}

pub fn cgr_spec(seq: &[u8], s: f64) -> Option<Vec<(f64, f64)>> {
    let mut p = (s / 2.0, s / 2.0);
    let mut out = Vec::new();
    for &b in seq {
        let c = corner(b, s)?;
        p = ((c.0 + p.0) / 2.0, (c.1 + p.1) / 2.0);
        out.push(p);
    }
    Some(out)
}

fn run_cgr(recs: &[Vec<u8>], size: usize, threads: usize) -> Result<String, String> {
    run_cgr_keep(recs, size, threads).0
}

/// as run_cgr, and also what the output file holds after the call (whatever the call returned)
fn run_cgr_keep(recs: &[Vec<u8>], size: usize, threads: usize) -> (Result<String, String>, Vec<u8>) {
    let sc = Scratch::new("cgr");
    let inp = sc.path(in_name());
    let out = sc.path("out.txt");
    write_fasta(&inp, recs);
    maybe_stale(&out);
    let (i2, o2) = (inp.clone(), out.clone());
    let r = guarded(move || {
        let mut c = composition::cgr::CgrComputer::new(i2, o2, size);
        c.set_threads(threads);
        c.vectorise()
    });
    let left = std::fs::read(&out).unwrap_or_default();
    (match r {
        Ok(Ok(())) => std::fs::read_to_string(&out).map_err(|e| format!("cannot read output: {}", e)),
        Ok(Err(e)) => Err(format!("error: {}", e)),
        Err(e) => Err(format!("panic: {}", e)),
    }, left)
}

fn parse_row(line: &str) -> Option<Vec<(f64, f64)>> {
    let mut v = Vec::new();
    if line.is_empty() { return Some(v); }
    for t in line.split(' ') {
        let t = t.strip_prefix('(')?.strip_suffix(')')?;
        let mut it = t.split(',');
        let x: f64 = it.next()?.parse().ok()?;
        let y: f64 = it.next()?.parse().ok()?;
        v.push((x, y));
    }
    Some(v)
}

fn c11_batch(recs: &[Vec<u8>], size: usize, threads: usize) -> Option<Vec<(String, String)>> {
    let bad = recs.iter().any(|r| cgr_spec(r, size as f64).is_none());
    let (out, left) = run_cgr_keep(recs, size, threads);
    let mut which = 0usize;
    let why = match out {
        // a record with another byte is refused, and none of its bases reaches the output: what the file holds
        // is complete rows of records before it, nothing else
        Err(e) => if bad {
            let first_bad = recs.iter().position(|r| cgr_spec(r, size as f64).is_none()).unwrap();
            let text = String::from_utf8_lossy(&left).to_string();
            let mut parts: Vec<&str> = text.split('\n').collect();
            let tail = parts.pop().unwrap_or("");
            let mut w = String::new();
            if !tail.is_empty() { which = first_bad; w = format!("refused with an error, yet the output holds a partial row {:?}", &tail[..tail.len().min(60)]); }
            else if parts.len() > first_bad { which = first_bad; w = format!("refused with an error, yet the output holds {} rows and only {} records precede the refused one", parts.len(), first_bad); }
            else {
                for (i, l) in parts.iter().enumerate() {
                    if parse_row(l) != cgr_spec(&recs[i], size as f64) { which = i; w = format!("refused with an error; row {} left in the output is not the row of record {}", i, i); break; }
                }
            }
            w
        } else { e },
        Ok(text) => {
            if bad { "a record with a non-nucleotide byte produced output".to_string() } else {
                let lines: Vec<&str> = text.split('\n').collect();
                let mut w = String::new();
                if lines.len() != recs.len() + 1 { w = format!("{} lines for {} records", lines.len() - 1, recs.len()); }
                else {
                    for (i, r) in recs.iter().enumerate() {
                        let want = cgr_spec(r, size as f64).unwrap();
                        match parse_row(lines[i]) {
                            Some(got) if got == want => {}
                            Some(got) => { which = i; w = format!("row {}: got {:?}.. expected {:?}..", i, &got[..got.len().min(3)], &want[..want.len().min(3)]); break; }
                            None => { which = i; w = format!("row {} unparsable", i); break; }
                        }
                        let s = size as f64;
                        if want.iter().any(|p| p.0 < 0.0 || p.0 > s || p.1 < 0.0 || p.1 > s) { which = i; w = "point outside the square".into(); break; }
                    }
                }
                w
            }
        }
    };
    if why.is_empty() { None } else {
        Some(vec![("seq".into(), show(&recs[which])), ("size".into(), size.to_string()), ("threads".into(), threads.to_string()), ("why".into(), why)])
    }
}

pub fn c11(o: &Opts) -> Outcome {
    let mut cases = 0u64;
    if let Some(inp) = &o.input {
        return Outcome { cases: 1, witness: c11_batch(&[unshow(&inp["seq"])], inp["size"].parse().unwrap(), inp["threads"].parse().unwrap()) };
    }
    let mut rng = Rng(o.seed.wrapping_mul(0x9E3779B97F4A7C15) | 1);
    for size in [1usize, 2, 3, 7, 64, 1000, 1 << 20] {
        let mut recs: Vec<Vec<u8>> = Vec::new();
        for_all_strings(b"ACGTu", 4, &mut |s| { if !s.is_empty() { recs.push(s.to_vec()); } false });
        for _ in 0..50 {
            let l = 1 + rng.below(200) as usize;
            recs.push(random_seq(&mut rng, l, 0));
        }
        cases += recs.len() as u64;
        if let Some(w) = c11_batch(&recs, size, 2) { return Outcome { cases, witness: Some(w) }; }
    }
    // long records (beyond any block size a parallel walk might use), low-complexity content near the edges
    {
        let mut recs: Vec<Vec<u8>> = vec![vec![b'A'; 600], (0..1100).map(|i| b"AC"[i % 2]).collect(), (0..1300).map(|i| b"ATU"[i % 3]).collect(), vec![b'T'; 2049]];
        for _ in 0..3 { let l = 1500 + rng.below(3000) as usize; recs.push(random_seq(&mut rng, l, 0)); }
        for threads in [1usize, 4] {
            cases += recs.len() as u64;
            if let Some(w) = c11_batch(&recs, 16, threads) { return Outcome { cases, witness: Some(w) }; }
        }
    }
    // many records (more than any per-batch record limit a writer might use): one line per record, in order
    {
        let recs: Vec<Vec<u8>> = (0..2500).map(|i| { let l = 1 + (i % 5) as usize; random_seq(&mut rng, l, 0) }).collect();
        for threads in [3usize] {
            cases += recs.len() as u64;
            if let Some(mut w) = c11_batch(&recs, 2, threads) {
                for kv in w.iter_mut() { if kv.0 == "seq" { kv.1 = format!("<one of {} short records>", recs.len()); } }
                return Outcome { cases, witness: Some(w) };
            }
        }
    }
    // many records of distinct, decreasing lengths (later records finish first) and many workers: line r belongs to record r
    {
        let n = 1600usize;
        let recs: Vec<Vec<u8>> = (0..n).map(|i| { let l = n - i; (0..l).map(|j| b"ACGT"[(i + j) % 4]).collect() }).collect();
        for threads in [2usize, 8, 16] {
            cases += recs.len() as u64;
            if let Some(mut w) = c11_batch(&recs, 4, threads) {
                for kv in w.iter_mut() { if kv.0 == "seq" { kv.1 = format!("<one of {} records of lengths {}..1>", n, n); } }
                return Outcome { cases, witness: Some(w) };
            }
        }
    }
    // records with no bases between ordinary records: one (empty) row each
    {
        let recs: Vec<Vec<u8>> = vec![b"ACGT".to_vec(), vec![], b"GGGTTTA".to_vec(), vec![], vec![], b"T".to_vec(), vec![]];
        for threads in [1usize, 2, 4] {
            cases += recs.len() as u64;
            if let Some(w) = c11_batch(&recs, 8, threads) { return Outcome { cases, witness: Some(w) }; }
        }
    }
    // rejection: every two-byte UTF-8 character (bytes >= 0x80) inside a nucleotide record
    for lead in 0xC2u8..=0xDF {
        for cont in (0x80u8..=0xBF).step_by(if o.thorough { 1 } else { 3 }) {
            let s = vec![b'A', b'C', lead, cont, b'G', b'T'];
            cases += 1;
            if let Some(w) = c11_batch(&[s], 8, 1) { return Outcome { cases, witness: Some(w) }; }
        }
    }
    // rejection: one bad byte anywhere
    for b in [b'N', b'n', b'-', b'R', b'*', 0x80u8 as u8] {
        for pos in 0..4usize {
            let mut s = b"ACGT".to_vec();
            s.insert(pos, if b < 0x21 || b > 0x7e { b'X' } else { b });
            cases += 1;
            if let Some(w) = c11_batch(&[s], 8, 1) { return Outcome { cases, witness: Some(w) }; }
        }
    }
    // an output path that already holds a longer result of an earlier run
    {
        let recs: Vec<Vec<u8>> = vec![b"ACGTTGCA".to_vec(), b"GGATC".to_vec()];
        cases += 1;
        std::env::set_var("VERIF_STALE_OUTPUT", "1");
        let w = c11_batch(&recs, 8, 2);
        std::env::remove_var("VERIF_STALE_OUTPUT");
        if let Some(mut w) = w { w.push(("stale_output".into(), "the output file existed before the run, holding 400 longer lines".into())); return Outcome { cases, witness: Some(w) }; }
    }
    // multi-member gzip input
    {
        let recs: Vec<Vec<u8>> = vec![b"ACGTTGCA".to_vec(), b"GGATC".to_vec(), b"ACGTu".to_vec(), b"TTGACC".to_vec(), b"A".to_vec()];
        cases += recs.len() as u64;
        for kind in KINDS { if let Some(w) = with_kind(kind, &recs, || c11_batch(&recs, 8, 2)) { return Outcome { cases, witness: Some(w) }; } }
    }
    // long records with homopolymer runs across the multiples of 512 and of 1000: a trace computed block-wise, or
    // from a bounded look-back, restarts the midpoint recursion there and differs once a run outlasts the look-back
    {
        let mut st = 0x9e3779b97f4a7c15u64;
        for len in [1500usize, 4097, 4300, 8200, 20000] {
            let mut s: Vec<u8> = (0..len).map(|_| { st ^= st << 13; st ^= st >> 7; st ^= st << 17; b"ACGT"[(st >> 33) as usize & 3] }).collect();
            let mut marks: Vec<usize> = (512..len).step_by(512).collect();
            marks.extend((1000..len).step_by(1000));
            for (bi, &mark) in marks.iter().enumerate() {
                let b = b"ACGT"[(mark / 512 + mark / 1000) % 3 + (bi & 1)];
                let run = 70 + 37 * (bi % 7);
                for p in mark.saturating_sub(run / 2)..(mark + run / 2).min(len) { s[p] = b; }
            }
            cases += 1;
            if let Some(w) = c11_batch(&[s], 8, 2) { return Outcome { cases, witness: Some(w) }; }
        }
    }
    // rejection among ordinary records, for several worker counts
    for threads in [1usize, 2, 4] {
        let recs: Vec<Vec<u8>> = vec![b"ACGT".to_vec(), b"GGTTA".to_vec(), b"ACGTNACGT".to_vec(), b"TTT".to_vec()];
        cases += recs.len() as u64;
        if let Some(w) = c11_batch(&recs, 8, threads) { return Outcome { cases, witness: Some(w) }; }
    }
    Outcome { cases, witness: None }
}

/// C12: k-mer CGR rows through the public file API
pub fn c12_batch(recs: &[Vec<u8>], k: usize, size: usize, norm: bool, threads: usize) -> Option<Vec<(String, String)>> {
    let sc = Scratch::new("ocgr");
    let inp = sc.path(in_name());
    let out = sc.path("out.txt");
    write_fasta(&inp, recs);
    maybe_stale(&out);
    let (i2, o2) = (inp.clone(), out.clone());
    let r = guarded(move || {
        let mut c = composition::oligocgr::OligoCgrComputer::new(i2, o2, k, size);
        c.set_threads(threads);
        c.set_norm(norm);
        c.vectorise()
    });
    let cols: Vec<u64> = (0..pow4(k)).filter(|&x| is_canon(x, k)).collect();
    let mut which = 0;
    let why = match r {
        Err(e) => format!("panic: {}", e),
        Ok(Err(e)) => format!("error: {}", e),
        Ok(Ok(())) => {
            let text = std::fs::read_to_string(&out).unwrap_or_default();
            let lines: Vec<&str> = text.split('\n').collect();
            let mut w = String::new();
            if lines.len() != recs.len() + 1 { w = format!("{} rows for {} records", lines.len() - 1, recs.len()); }
            else {
                'outer: for (i, rec) in recs.iter().enumerate() {
                    let (cnt, total) = crate::p_rows::counts_spec(rec, k);
                    let parts: Vec<&str> = lines[i].split(' ').collect();
                    if parts.len() != cols.len() { which = i; w = format!("row {} has {} triples, expected {}", i, parts.len(), cols.len()); break; }
                    for (j, p) in parts.iter().enumerate() {
                        let t: Vec<f64> = p.trim_matches(|c| c == '(' || c == ')').split(',').map(|x| x.parse().unwrap_or(f64::NAN)).collect();
                        let end = *cgr_spec(text_of(cols[j], k).as_bytes(), size as f64).unwrap().last().unwrap();
                        let f = if norm { cnt[j] as f64 / total.max(1) as f64 } else { cnt[j] as f64 };
                        if t.len() != 3 || t[0] != end.0 || t[1] != end.1 || t[2] != f { which = i; w = format!("row {} column {}: got {:?}, expected ({},{},{})", i, j, t, end.0, end.1, f); break 'outer; }
                    }
                }
            }
            w
        }
    };
    if why.is_empty() { None } else {
        Some(vec![("seq".into(), show(&recs[which])), ("k".into(), k.to_string()), ("size".into(), size.to_string()), ("norm".into(), norm.to_string()), ("threads".into(), threads.to_string()), ("why".into(), why)])
    }
}

pub fn c12(o: &Opts) -> Outcome {
    let mut cases = 0u64;
    if let Some(inp) = &o.input {
        if inp.contains_key("sequence_of_sizes") {
            for size in [16usize, 32, 4] {
                if let Some(w) = c12_batch(&[unshow(&inp["seq"])], inp["k"].parse().unwrap(), size, inp["norm"] == "true", inp["threads"].parse().unwrap()) { return Outcome { cases: 3, witness: Some(w) }; }
            }
            return Outcome { cases: 3, witness: None };
        }
        return Outcome { cases: 1, witness: c12_batch(&[unshow(&inp["seq"])], inp["k"].parse().unwrap(), inp["size"].parse().unwrap(), inp["norm"] == "true", inp["threads"].parse().unwrap()) };
    }
    let mut rng = Rng(o.seed.wrapping_mul(0x9E3779B97F4A7C15) | 1);
    for k in 1..=(if o.thorough { 6 } else { 4 }) {
        for size in [1usize, 8, 1000, 1 << 20] {
            let recs: Vec<Vec<u8>> = (0..20).map(|_| { let l = 1 + rng.below(150) as usize; random_seq(&mut rng, l, 10).iter().map(|&b| if b < 0x21 || b > 0x7e || b == b'>' { b'N' } else { b }).collect() }).collect();
            for norm in [true, false] {
                cases += recs.len() as u64;
                if let Some(w) = c12_batch(&recs, k, size, norm, 3) { return Outcome { cases, witness: Some(w) }; }
            }
        }
    }
    // coordinates that need more than 24 significant bits (a value rendered through a narrower float type differs)
    for (k, size) in [(7usize, 999_999usize), (7, 1_048_575), (6, 1_000_001)] {
        let recs: Vec<Vec<u8>> = vec![b"ACGTTGCAATTGACCAGT".to_vec(), b"GGATCAGGACCA".to_vec()];
        cases += recs.len() as u64;
        if let Some(w) = c12_batch(&recs, k, size, false, 2) { return Outcome { cases, witness: Some(w) }; }
    }
    // many records (more than any per-batch record limit), one and many workers: row r belongs to record r
    {
        let recs: Vec<Vec<u8>> = (0..25_000).map(|i| { let l = 2 + (i * 5 % 17) as usize; (0..l).map(|j| b"ACGT"[(i + j * j + i / 3) % 4]).collect() }).collect();
        for threads in [1usize, 16] {
            cases += recs.len() as u64;
            if let Some(mut w) = c12_batch(&recs, 2, 8, false, threads) {
                for kv in w.iter_mut() { if kv.0 == "seq" { kv.1 = "<one of 25000 short records>".into(); } }
                return Outcome { cases, witness: Some(w) };
            }
        }
    }
    // a record longer than 2^20 bases (beyond any internal slice size), mixed content
    {
        let long: Vec<u8> = (0..((1usize << 20) + 500)).map(|i| b"ACGGTCATTGACCAGT"[(i * 7 + i / 13) % 16]).collect();
        let recs: Vec<Vec<u8>> = vec![b"ACGTACGT".to_vec(), long, b"GGGTTT".to_vec()];
        for norm in [false, true] {
            cases += 3;
            if let Some(mut w) = c12_batch(&recs, 3, 8, norm, 4) {
                for kv in w.iter_mut() { if kv.0 == "seq" && kv.1.len() > 200 { kv.1 = "<2^20+500 bases: ACGGTCATTGACCAGT[(i*7 + i/13) % 16]>".into(); } }
                return Outcome { cases, witness: Some(w) };
            }
        }
    }
    // records of exactly k, k+1 and k-1 bases, also between ambiguous bytes
    for k in [3usize, 5] {
        let base: Vec<u8> = (0..k + 1).map(|i| b"ACGGTCATTG"[i % 10]).collect();
        let recs: Vec<Vec<u8>> = vec![base[..k].to_vec(), base.clone(), base[..k - 1].to_vec(), [b"N".to_vec(), base[..k].to_vec(), b"N".to_vec()].concat()];
        for norm in [false, true] {
            cases += recs.len() as u64;
            if let Some(w) = c12_batch(&recs, k, 8, norm, 2) { return Outcome { cases, witness: Some(w) }; }
        }
    }
    // multi-member gzip input
    {
        let recs: Vec<Vec<u8>> = vec![b"ACGTTGCA".to_vec(), b"GGATC".to_vec(), b"ACGTNACGT".to_vec(), b"TTGACC".to_vec(), b"A".to_vec()];
        cases += recs.len() as u64;
        for kind in KINDS { if let Some(w) = with_kind(kind, &recs, || c12_batch(&recs, 2, 8, true, 2)) { return Outcome { cases, witness: Some(w) }; } }
    }
    // two computers with the same k and different square sizes in one process (nothing may be shared between them)
    for size in [16usize, 32, 4] {
        let recs: Vec<Vec<u8>> = vec![b"ACGTTGCAAT".to_vec(), b"GGATC".to_vec()];
        cases += recs.len() as u64;
        if let Some(mut w) = c12_batch(&recs, 3, size, false, 2) { w.push(("sequence_of_sizes".into(), "16, 32, 4 with k=3 in one process".into())); return Outcome { cases, witness: Some(w) }; }
    }
    // counts beyond 2^24 (where a single-precision accumulator stops counting): one record of 17 M bases
    {
        let big = vec![vec![b'A'; 17_000_000], b"ACGTAC".to_vec()];
        for norm in [false, true] {
            cases += 1;
            if let Some(mut w) = c12_batch(&big, 1, 8, norm, 2) {
                for kv in w.iter_mut() { if kv.0 == "seq" { kv.1 = "<record 0: 17000000 x A; record 1: ACGTAC>".into(); } }
                return Outcome { cases, witness: Some(w) };
            }
        }
    }
    // an output path that already holds a longer result of an earlier run
    {
        let recs: Vec<Vec<u8>> = vec![b"ACGTTGCA".to_vec(), b"GGATC".to_vec()];
        for norm in [true, false] {
            cases += 1;
            std::env::set_var("VERIF_STALE_OUTPUT", "1");
            let w = c12_batch(&recs, 2, 8, norm, 2);
            std::env::remove_var("VERIF_STALE_OUTPUT");
            if let Some(mut w) = w { w.push(("stale_output".into(), "the output file existed before the run, holding 400 longer lines".into())); return Outcome { cases, witness: Some(w) }; }
        }
    }
    Outcome { cases, witness: None }
}
