//! C15 (and the CLI clause of C12): the real command-line front end (kmertools::args::{Cli, cli}, parsed
//! by clap exactly as main() does) against the library called with the same settings / the spec.
use crate::spec::*;
use crate::util::*;
use crate::{Opts, Outcome};
use clap::Parser;

fn run_cli(args: &[String]) -> Result<(), String> {
    let a: Vec<String> = std::iter::once("kmertools".to_string()).chain(args.iter().cloned()).collect();
    match kmertools::args::Cli::try_parse_from(a) {
        Err(e) => Err(format!("refused: {}", e.kind())),
        Ok(c) => guarded(move || kmertools::args::cli(c)).map_err(|e| format!("panic: {}", e)),
    }
}

fn sv(v: &[&str]) -> Vec<String> { v.iter().map(|s| s.to_string()).collect() }

fn wit(args: &[String], why: String) -> Option<Vec<(String, String)>> {
    Some(vec![("args".into(), args.join(" ")), ("why".into(), why)])
}

fn test_recs(rng: &mut Rng, n: usize) -> Vec<Vec<u8>> {
    (0..n).map(|_| { let l = 20 + rng.below(120) as usize; random_seq(rng, l, 10).iter().map(|&b| if b < 0x21 || b > 0x7e || b == b'>' { b'N' } else { b }).collect() }).collect()
}

fn oligo_cases(rng: &mut Rng, cases: &mut u64) -> Option<Vec<(String, String)>> {
    let recs = test_recs(rng, 6);
    for k in [3usize, 5, 7] {
        for (preset, delim) in [("csv", ","), ("tsv", "\t"), ("spc", " ")] {
            for counts in [false, true] {
                for header in [false, true] {
                    for threads in ["", "0", "1", "5"] {
                        let sc = Scratch::new("cli");
                        let inp = sc.path("in.fa"); let out = sc.path("out.txt");
                        write_fasta(&inp, &recs);
                        let mut a = sv(&["comp", "oligo", "-i", &inp, "-o", &out, "-k", &k.to_string(), "-p", preset]);
                        if !threads.is_empty() { a.push("-t".into()); a.push(threads.to_string()); }
                        if counts { a.push("-c".into()); }
                        if header { a.push("-H".into()); }
                        *cases += 1;
                        if let Err(e) = run_cli(&a) { return wit(&a, e); }
                        let text = std::fs::read_to_string(&out).unwrap_or_default();
                        let mut lines: Vec<&str> = text.split('\n').collect();
                        if header {
                            let want: Vec<String> = (0..pow4(k)).filter(|&x| is_canon(x, k)).map(|x| text_of(x, k)).collect();
                            if lines.is_empty() || lines[0] != want.join(delim) { return wit(&a, "header line is not the canonical k-mers joined by the preset delimiter".into()); }
                            lines.remove(0);
                        }
                        if lines.len() != recs.len() + 1 { return wit(&a, format!("{} rows for {} records", lines.len() - 1, recs.len())); }
                        for (i, r) in recs.iter().enumerate() {
                            if let Err(e) = crate::p_rows::row_matches(lines[i], r, k, !counts, delim) { return wit(&a, format!("row {}: {}", i, e)); }
                        }
                    }
                }
            }
        }
    }
    // the header flag only adds the column line, also when the input holds no record at all, on both writers
    for counts in [false, true] {
        let sc = Scratch::new("cli");
        let inp = sc.path("in.fa"); let out = sc.path("out.txt");
        std::fs::write(&inp, b"").unwrap();
        let mut a = sv(&["comp", "oligo", "-i", &inp, "-o", &out, "-k", "3", "-H"]);
        if counts { a.push("-c".into()); }
        *cases += 1;
        if let Err(e) = run_cli(&a) { return wit(&a, format!("input without records: {}", e)); }
        let text = std::fs::read_to_string(&out).unwrap_or_default();
        let want: Vec<String> = (0..pow4(3)).filter(|&x| is_canon(x, 3)).map(|x| text_of(x, 3)).collect();
        if text != want.join(" ") + "\n" { return wit(&a, format!("input without records and -H: output is {:?}.., expected exactly the column line", &text[..text.len().min(40)])); }
    }
    // out-of-range k is refused and writes nothing
    for k in ["2", "8", "0"] {
        let sc = Scratch::new("cli");
        let inp = sc.path("in.fa"); let out = sc.path("out.txt");
        write_fasta(&inp, &recs);
        let a = sv(&["comp", "oligo", "-i", &inp, "-o", &out, "-k", k]);
        *cases += 1;
        if run_cli(&a).is_ok() || std::path::Path::new(&out).exists() { return wit(&a, "k outside 3..=7 was not refused".into()); }
    }
    None
}

fn cgr_cases(rng: &mut Rng, cases: &mut u64) -> Option<Vec<(String, String)>> {
    let recs = test_recs(rng, 4);
    for k in [3usize, 4, 6] {
        for v in (if k == 6 { vec![None] } else { vec![None, Some(1usize), Some(2), Some(7), Some(1 << 20)] }) {
            for (counts, with_t) in [(false, true), (true, true), (false, false), (true, false)] {
                let sc = Scratch::new("cli");
                let inp = sc.path("in.fa"); let out = sc.path("out.txt"); let lib = sc.path("lib.txt");
                write_fasta(&inp, &recs);
                let mut a = sv(&["comp", "cgr", "-i", &inp, "-o", &out, "-k", &k.to_string()]);
                if with_t { a.push("-t".into()); a.push("2".into()); }   // the worker option present or left to its default
                if let Some(v) = v { a.push("-v".into()); a.push(v.to_string()); }
                if counts { a.push("-c".into()); }
                *cases += 1;
                if let Err(e) = run_cli(&a) { return wit(&a, e); }
                let v = v.or(Some(k * k));   // without -v the square side is k*k
                if let Some(v) = v {
                    // every CLI result equals the library result for the same settings
                    let (i2, l2) = (inp.clone(), lib.clone());
                    let r = guarded(move || { let mut c = composition::oligocgr::OligoCgrComputer::new(i2, l2, k, v); c.set_threads(2); c.set_norm(!counts); c.vectorise() });
                    if !matches!(r, Ok(Ok(()))) { continue; }
                    if std::fs::read(&out).unwrap_or_default() != std::fs::read(&lib).unwrap_or_default() {
                        return wit(&a, format!("k-mer CGR through the command line differs from the library at square size {}", v));
                    }
                }
            }
        }
    }
    // whole-sequence CGR: counts are refused; square size passed as given
    let clean: Vec<Vec<u8>> = (0..3).map(|_| { let l = 5 + rng.below(40) as usize; random_seq(rng, l, 0) }).collect();
    for v in [None, Some(1usize), Some(9)] {
        let sc = Scratch::new("cli");
        let inp = sc.path("in.fa"); let out = sc.path("out.txt"); let lib = sc.path("lib.txt");
        write_fasta(&inp, &clean);
        let mut a = sv(&["comp", "cgr", "-i", &inp, "-o", &out]);
        if let Some(v) = v { a.push("-v".into()); a.push(v.to_string()); }
        *cases += 1;
        if let Err(e) = run_cli(&a) { return wit(&a, e); }
        let (i2, l2) = (inp.clone(), lib.clone());
        let vv = v.unwrap_or(1);
        let _ = guarded(move || { let mut c = composition::cgr::CgrComputer::new(i2, l2, vv); c.vectorise() });
        if std::fs::read(&out).unwrap_or_default() != std::fs::read(&lib).unwrap_or_default() { return wit(&a, "whole-sequence CGR through the command line differs from the library".into()); }
        let mut b = a.clone(); b.push("-c".into());
        let out2 = sc.path("out2.txt"); b[5] = out2.clone();
        *cases += 1;
        let _ = run_cli(&b);
        if std::path::Path::new(&out2).exists() { return wit(&b, "--counts with whole-sequence CGR produced output".into()); }
    }
    None
}

fn cov_cases(rng: &mut Rng, cases: &mut u64) -> Option<Vec<(String, String)>> {
    let recs = test_recs(rng, 5);
    let alt = test_recs(rng, 3);
    for (bs, bc) in [(5usize, 8usize), (16, 16), (7, 5)] {
        for counts in [false, true] {
            for use_alt in [false, true] {
                for preset in ["csv", "spc"] {
                    let sc = Scratch::new("cli");
                    let inp = sc.path("in.fa"); let altp = sc.path("alt.fa"); let out = sc.path("outd"); let lib = sc.path("libd");
                    write_fasta(&inp, &recs); write_fasta(&altp, &alt);
                    let mut a = sv(&["cov", "-i", &inp, "-o", &out, "-k", "7", "-s", &bs.to_string(), "-c", &bc.to_string(), "-p", preset, "-t", "2"]);
                    if counts { a.push("--counts".into()); }
                    if use_alt { a.push("-a".into()); a.push(altp.clone()); }
                    *cases += 1;
                    if let Err(e) = run_cli(&a) { return wit(&a, e); }
                    std::fs::create_dir_all(&lib).unwrap();
                    let (i2, l2, a2) = (inp.clone(), lib.clone(), altp.clone());
                    let d = if preset == "csv" { "," } else { " " }.to_string();
                    let _ = guarded(move || {
                        let mut c = coverage::CovComputer::new(i2, l2, 7, bs, bc);
                        c.set_threads(2); c.set_norm(!counts); c.set_delim(d); c.set_max_memory(6.0);
                        if use_alt { c.set_kmer_path(a2); }
                        c.build_table().unwrap(); c.compute_coverages();
                    });
                    let x = std::fs::read(format!("{}/kmers.vectors", out)).unwrap_or_default();
                    let y = std::fs::read(format!("{}/kmers.vectors", lib)).unwrap_or_default();
                    if x != y || x.is_empty() { return wit(&a, "coverage vectors through the command line differ from the library with the same settings".into()); }
                }
            }
        }
    }
    // a second run into the same output directory (different input and k) equals the library run in a fresh directory
    {
        let sc = Scratch::new("cli");
        let out = sc.path("outd"); let lib = sc.path("libd");
        let in1 = sc.path("a.fa"); let in2 = sc.path("b.fa");
        let r1: Vec<Vec<u8>> = (0..4).map(|_| b"ACGTACGTACGTACGTACGTACGTACGT".to_vec()).collect();
        // the second input is repetitive: its k-mers have multiplicities above the bin size, so a stale table shows
        let r2: Vec<Vec<u8>> = (0..8).map(|_| b"TTGACCATGGCATTAGACCAGGATTACAGGACCATTAGGC".to_vec()).collect();
        write_fasta(&in1, &r1); write_fasta(&in2, &r2);
        let a1 = sv(&["cov", "-i", &in1, "-o", &out, "-k", "7", "-s", "5", "-c", "6", "--counts"]);
        let a2 = sv(&["cov", "-i", &in2, "-o", &out, "-k", "9", "-s", "5", "-c", "6", "--counts"]);
        *cases += 2;
        if let Err(e) = run_cli(&a1) { return wit(&a1, e); }
        if let Err(e) = run_cli(&a2) { return wit(&a2, e); }
        std::fs::create_dir_all(&lib).unwrap();
        let (i2, l2) = (in2.clone(), lib.clone());
        let _ = guarded(move || { let mut c = coverage::CovComputer::new(i2, l2, 9, 5, 6); c.set_norm(false); c.set_max_memory(6.0); c.build_table().unwrap(); c.compute_coverages(); });
        let x = std::fs::read(format!("{}/kmers.vectors", out)).unwrap_or_default();
        let y = std::fs::read(format!("{}/kmers.vectors", lib)).unwrap_or_default();
        if x != y || x.is_empty() { return wit(&a2, "second run into an output directory used before differs from the library run in a fresh directory".into()); }
    }
    for bad in [vec!["-s", "4"], vec!["-c", "0"], vec!["-k", "6"], vec!["-m", "5"], vec!["-m", "129"], vec!["-m", "nan"], vec!["-m", "NaN"], vec!["-m", "inf"], vec!["-m", "7.5"], vec!["-m", "-6"],
                vec!["-k", "32"], vec!["-s", "nan"], vec!["-c", "4"]] {
        let sc = Scratch::new("cli");
        let inp = sc.path("in.fa"); let out = sc.path("outd");
        write_fasta(&inp, &recs);
        let mut a = sv(&["cov", "-i", &inp, "-o", &out]);
        a.extend(bad.iter().map(|s| s.to_string()));
        *cases += 1;
        if run_cli(&a).is_ok() || std::path::Path::new(&out).exists() { return wit(&a, "out-of-range option was not refused".into()); }
    }
    None
}

fn min_ctr_cases(rng: &mut Rng, cases: &mut u64) -> Option<Vec<(String, String)>> {
    let recs = test_recs(rng, 4);
    // a window not longer than m is refused without output; w = 0 and w > m run
    for (m, w, ok) in [(10usize, 10usize, false), (10, 7, false), (10, 11, true), (10, 0, true), (7, 31, true)] {
        for preset in ["s2m", "m2s"] {
            let sc = Scratch::new("cli");
            let inp = sc.path("in.fa"); let out = sc.path("out.txt");
            write_fasta(&inp, &recs);
            let a = sv(&["min", "-i", &inp, "-o", &out, "-m", &m.to_string(), "-w", &w.to_string(), "-p", preset, "-t", "2"]);
            *cases += 1;
            let r = run_cli(&a);
            let exists = std::path::Path::new(&out).exists();
            if ok && (r.is_err() || !exists) { return wit(&a, format!("valid window/minimiser sizes did not produce output ({:?})", r.err())); }
            if !ok && exists { return wit(&a, "a window not longer than the minimiser was not refused".into()); }
        }
    }
    // counter: values outside the documented ranges are refused without output
    for bad in [vec!["-k", "9"], vec!["-k", "32"], vec!["-m", "5"], vec!["-m", "129"], vec!["-m", "nan"], vec!["-m", "inf"], vec!["-m", "6.5"]] {
        let sc = Scratch::new("cli");
        let inp = sc.path("in.fa"); let out = sc.path("outd");
        write_fasta(&inp, &recs);
        let mut a = sv(&["ctr", "-i", &inp, "-o", &out, "-t", "2"]);
        if bad[0] != "-k" { a.extend(sv(&["-k", "11"])); }
        a.extend(bad.iter().map(|s| s.to_string()));
        *cases += 1;
        if run_cli(&a).is_ok() || std::path::Path::new(&format!("{}/kmers.counts", out)).exists() { return wit(&a, "out-of-range option of the counter was not refused".into()); }
    }
    // minimisers: values outside the documented ranges are refused without output
    for bad in [vec!["-m", "6"], vec!["-m", "29"], vec!["-m", "nan"]] {
        let sc = Scratch::new("cli");
        let inp = sc.path("in.fa"); let out = sc.path("out.txt");
        write_fasta(&inp, &recs);
        let mut a = sv(&["min", "-i", &inp, "-o", &out, "-t", "2"]);
        a.extend(bad.iter().map(|s| s.to_string()));
        *cases += 1;
        if run_cli(&a).is_ok() || std::path::Path::new(&out).exists() { return wit(&a, "out-of-range minimiser size was not refused".into()); }
    }
    // the thread option never changes the minimiser listings (as sets of lines), also when every worker writes much more than any buffer holds
    {
        let big: Vec<Vec<u8>> = (0..3000).map(|_| { let l = 150 + rng.below(200) as usize; random_seq(rng, l, 3).iter().map(|&b| if clean(b) || b == b'N' { b } else { b'N' }).collect() }).collect();
        for preset in ["s2m", "m2s"] {
            let sc = Scratch::new("cli");
            let inp = sc.path("in.fa");
            write_fasta(&inp, &big);
            let mut reference: Option<Vec<String>> = None;
            for t in ["1", "2", "8", "16"] {
                let out = sc.path(&format!("out_{}.txt", t));
                let a = sv(&["min", "-i", &inp, "-o", &out, "-m", "7", "-w", "12", "-p", preset, "-t", t]);
                *cases += 1;
                if let Err(e) = run_cli(&a) { return wit(&a, e); }
                let text = std::fs::read_to_string(&out).unwrap_or_default();
                let mut lines: Vec<String> = text.split('\n').map(|x| {
                    if preset == "m2s" && x.contains("\t[") {
                        let (k, v) = x.split_once('\t').unwrap();
                        let mut items: Vec<&str> = v.trim_start_matches('[').trim_end_matches(']').split("), (").map(|it| it.trim_start_matches('(').trim_end_matches(')')).collect();
                        items.sort();
                        format!("{}\t{}", k, items.join("|"))
                    } else { x.to_string() }
                }).collect();
                lines.sort();
                match &reference {
                    None => reference = Some(lines),
                    Some(r) => if *r != lines { return wit(&a, format!("the {} listing of 3000 records with {} threads is not the same set of lines as with 1 thread ({} vs {} lines)", preset, t, lines.len(), r.len())); }
                }
            }
        }
    }
    for acgt in [false, true] {
        let sc = Scratch::new("cli");
        let inp = sc.path("in.fa"); let out = sc.path("outd"); let lib = sc.path("libd");
        write_fasta(&inp, &recs);
        let mut a = sv(&["ctr", "-i", &inp, "-o", &out, "-k", "11", "-t", "2"]);
        if acgt { a.push("--acgt".into()); }
        *cases += 1;
        if let Err(e) = run_cli(&a) { return wit(&a, e); }
        std::fs::create_dir_all(&lib).unwrap();
        let (i2, l2) = (inp.clone(), lib.clone());
        let _ = guarded(move || { let mut c = counter::CountComputer::new(i2, l2, 11); c.set_threads(2); c.set_acgt_output(acgt); c.set_max_memory(6.0); c.count(); c.merge(true); });
        let norm = |p: String| { let mut v: Vec<String> = std::fs::read_to_string(p).unwrap_or_default().lines().map(|s| s.to_string()).collect(); v.sort(); v };
        if norm(format!("{}/kmers.counts", out)) != norm(format!("{}/kmers.counts", lib)) { return wit(&a, "counts through the command line differ from the library".into()); }
    }
    None
}

/// child mode: run the command line given in `args` in this process (its stdin is the parent's pipe)
pub fn stdin_cli_child(args: &[String]) {
    let r = run_cli(args);
    std::process::exit(if r.is_ok() { 0 } else { 3 });
}

/// `-i -` (standard input) through the command line gives the rows the library / spec gives for the same records
fn stdin_cases(rng: &mut Rng, cases: &mut u64) -> Option<Vec<(String, String)>> {
    use std::io::Write;
    let recs = test_recs(rng, 5);
    let mut fasta: Vec<u8> = Vec::new();
    for (i, r) in recs.iter().enumerate() { fasta.extend_from_slice(format!(">r{}\n", i).as_bytes()); fasta.extend_from_slice(r); fasta.push(b'\n'); }
    for counts in [false, true] {
        let sc = Scratch::new("clistdin");
        let out = sc.path("out.txt");
        let mut a = sv(&["comp", "oligo", "-i", "-", "-o", &out, "-k", "3", "-t", "2"]);
        if counts { a.push("-c".into()); }
        *cases += 1;
        let exe = match std::env::current_exe() { Ok(e) => e, Err(_) => return None };
        let mut full = vec!["stdin-cli".to_string()]; full.extend(a.iter().cloned());
        let mut child = match std::process::Command::new(exe).args(&full)
            .stdin(std::process::Stdio::piped()).stdout(std::process::Stdio::null()).stderr(std::process::Stdio::null()).spawn() { Ok(c) => c, Err(_) => return None };
        if let Some(mut si) = child.stdin.take() { let _ = si.write_all(&fasta); }
        let st = match child.wait() { Ok(s) => s, Err(_) => return None };
        if !st.success() { return wit(&a, format!("records on standard input: the run failed ({:?}); the library reads them", st.code())); }
        let text = std::fs::read_to_string(&out).unwrap_or_default();
        let lines: Vec<&str> = text.split('\n').collect();
        if lines.len() != recs.len() + 1 { return wit(&a, format!("records on standard input: {} rows for {} records", lines.len().saturating_sub(1), recs.len())); }
        for (i, r) in recs.iter().enumerate() {
            if let Err(e) = crate::p_rows::row_matches(lines[i], r, 3, !counts, " ") { return wit(&a, format!("records on standard input, row {}: {}", i, e)); }
        }
    }
    None
}

/// every subcommand that accepts `-` (the composition commands; `min`, `cov`, `ctr` infer the format from the file name and do not) gives the same result for `-i -` (records on standard input,
/// child process) as for `-i <file>` with the same records (lines compared as a multiset where order is unspecified)
fn stdin_vs_file_cases(rng: &mut Rng, cases: &mut u64) -> Option<Vec<(String, String)>> {
    use std::io::Write;
    let recs: Vec<Vec<u8>> = test_recs(rng, 5).iter().map(|r| r.iter().map(|&b| if clean(b) { b } else { b'A' }).collect()).collect();
    let mut fasta: Vec<u8> = Vec::new();
    for (i, r) in recs.iter().enumerate() { fasta.extend_from_slice(format!(">r{}\n", i).as_bytes()); fasta.extend_from_slice(r); fasta.push(b'\n'); }
    let variants: Vec<(Vec<&str>, bool)> = vec![
        (vec!["comp", "cgr", "-t", "2"], false),
        (vec!["comp", "cgr", "-k", "3", "-t", "2"], false),
        (vec!["comp", "cgr", "-k", "3", "-c", "-t", "2"], false),
    ];
    for (base, unordered) in variants {
        let sc = Scratch::new("clistdin2");
        let inp = sc.path("in.fa"); let out_f = sc.path("file.txt"); let out_s = sc.path("stdin.txt");
        std::fs::write(&inp, &fasta).unwrap();
        let mut a_file: Vec<String> = base.iter().map(|x| x.to_string()).collect();
        a_file.extend(sv(&["-i", &inp, "-o", &out_f]));
        let mut a_stdin: Vec<String> = base.iter().map(|x| x.to_string()).collect();
        a_stdin.extend(sv(&["-i", "-", "-o", &out_s]));
        *cases += 1;
        if let Err(e) = run_cli(&a_file) { return wit(&a_file, e); }
        let exe = match std::env::current_exe() { Ok(e) => e, Err(_) => return None };
        let mut full = vec!["stdin-cli".to_string()]; full.extend(a_stdin.iter().cloned());
        let mut child = match std::process::Command::new(exe).args(&full)
            .stdin(std::process::Stdio::piped()).stdout(std::process::Stdio::null()).stderr(std::process::Stdio::null()).spawn() { Ok(c) => c, Err(_) => return None };
        if let Some(mut si) = child.stdin.take() { let _ = si.write_all(&fasta); }
        let st = match child.wait() { Ok(s) => s, Err(_) => return None };
        if !st.success() { return wit(&a_stdin, format!("records on standard input: the run failed ({:?}); the same records in a file are processed", st.code())); }
        let norm = |t: String| -> Vec<String> {
            let mut l: Vec<String> = t.split('\n').map(|x| {
                if unordered && x.contains("\t[") {
                    // m2s line: the list order inside a line is unspecified as well
                    let (k, v) = x.split_once('\t').unwrap();
                    let mut items: Vec<&str> = v.trim_start_matches('[').trim_end_matches(']').split("), (").map(|it| it.trim_start_matches('(').trim_end_matches(')')).collect();
                    items.sort();
                    format!("{}\t{}", k, items.join("|"))
                } else { x.to_string() }
            }).collect();
            if unordered { l.sort(); }
            l
        };
        let tf = norm(std::fs::read_to_string(&out_f).unwrap_or_default());
        let ts = norm(std::fs::read_to_string(&out_s).unwrap_or_default());
        if tf != ts { return wit(&a_stdin, format!("records on standard input give {} lines, the same records in a file give {} lines, or their contents differ", ts.len(), tf.len())); }
    }
    None
}

pub fn c15(o: &Opts) -> Outcome {
    let mut cases = 0u64;
    if let Some(inp) = &o.input {
        // a recorded command line: re-run the family of cases it belongs to
        let _ = inp;
    }
    let mut rng = Rng(o.seed.wrapping_mul(0x9E3779B97F4A7C15) | 1);
    for f in [oligo_cases, cgr_cases, cov_cases, min_ctr_cases, stdin_cases, stdin_vs_file_cases] {
        if let Some(w) = f(&mut rng, &mut cases) { return Outcome { cases, witness: Some(w) }; }
    }
    Outcome { cases, witness: None }
}

/// the command-line clause of C12: `comp cgr -k K -v V` equals the library at the requested square size
pub fn c12_cli(o: &Opts) -> Outcome {
    let mut cases = 0u64;
    let mut rng = Rng(o.seed.wrapping_mul(0x9E3779B97F4A7C15) | 1);
    let w = cgr_cases(&mut rng, &mut cases);
    Outcome { cases, witness: w }
}
