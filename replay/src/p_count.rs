//! C07: counting + merging through the public API against the spec
use crate::spec::*;
use crate::util::*;
use crate::{Opts, Outcome};
use std::collections::HashMap;

pub fn c07_one(recs: &[Vec<u8>], k: usize, threads: usize, mem: f64, acgt: bool) -> Option<Vec<(String, String)>> { c07_run(recs, k, threads, mem, acgt, true) }
/// `delete` = the argument of merge(): whether the temporary chunk files are removed; the merged counts are the same either way
pub fn c07_run(recs: &[Vec<u8>], k: usize, threads: usize, mem: f64, acgt: bool, delete: bool) -> Option<Vec<(String, String)>> {
    let sc = Scratch::new("ctr");
    let inp = sc.path(in_name());
    let outd = sc.path("out");
    std::fs::create_dir_all(&outd).unwrap();
    write_fasta(&inp, recs);
    let (i2, o2) = (inp.clone(), outd.clone());
    let r = guarded(move || {
        let mut c = counter::CountComputer::new(i2, o2, k);
        c.set_threads(threads);
        c.set_max_memory(mem);
        c.set_acgt_output(acgt);
        c.count();
        c.merge(delete);
    });
    let mut want: HashMap<String, u64> = HashMap::new();
    for r in recs { for (_, f, rv) in kmers_spec(r, k) { let c = f.min(rv); *want.entry(if acgt { text_of(c, k) } else { c.to_string() }).or_insert(0) += 1; } }
    let why = match r {
        Err(e) => format!("panic: {}", e),
        Ok(()) => {
            let text = std::fs::read_to_string(format!("{}/kmers.counts", outd)).unwrap_or_default();
            let mut got: HashMap<String, u64> = HashMap::new();
            let mut w = String::new();
            for line in text.split('\n').filter(|l| !l.is_empty()) {
                let mut it = line.split('\t');
                let key = it.next().unwrap_or("").to_string();
                let v: u64 = it.next().and_then(|x| x.parse().ok()).unwrap_or(u64::MAX);
                if got.insert(key.clone(), v).is_some() { w = format!("k-mer {} listed twice", key); break; }
            }
            if w.is_empty() && got != want {
                let miss: Vec<&String> = want.keys().filter(|k| got.get(*k) != want.get(*k)).take(3).collect();
                let extra: Vec<&String> = got.keys().filter(|k| !want.contains_key(*k)).take(3).collect();
                w = format!("counts differ: {} lines, {} expected; wrong/missing {:?}, unexpected {:?}", got.len(), want.len(), miss, extra);
            }
            if w.is_empty() && delete {
                let left: Vec<String> = std::fs::read_dir(&outd).unwrap().filter_map(|e| e.ok()).map(|e| e.file_name().to_string_lossy().to_string()).filter(|n| n.starts_with("temp_kmers")).collect();
                if !left.is_empty() { w = format!("temporary chunk files survive the merge: {:?}", &left[..left.len().min(3)]); }
            }
            w
        }
    };
    if why.is_empty() { None } else {
        Some(vec![("records".into(), recs.iter().map(|r| show(r)).collect::<Vec<_>>().join("|")), ("k".into(), k.to_string()), ("threads".into(), threads.to_string()),
                  ("mem".into(), format!("{:e}", mem)), ("acgt".into(), acgt.to_string()), ("delete".into(), delete.to_string()), ("why".into(), why)])
    }
}

pub fn c07(o: &Opts) -> Outcome {
    let mut cases = 0u64;
    if let Some(inp) = &o.input {
        let recs: Vec<Vec<u8>> = inp["records"].split('|').map(unshow).collect();
        let delete = inp.get("delete").map(|d| d == "true").unwrap_or(true);
        return Outcome { cases: 1, witness: c07_run(&recs, inp["k"].parse().unwrap(), inp["threads"].parse().unwrap(), inp["mem"].parse().unwrap(), inp["acgt"] == "true", delete) };
    }
    let mut rng = Rng(o.seed.wrapping_mul(0x9E3779B97F4A7C15) | 1);
    // extreme multiplicity (one k-mer more than 2^16 times), and inputs with fewer distinct k-mers than partitions
    {
        let homo = vec![vec![b'A'; 70_000], b"ACGTACGTACGTAAAAAAAAAAAA".to_vec()];
        for (threads, mem) in [(1usize, 6.0f64), (4, 6.0)] {
            cases += 1;
            if let Some(mut w) = c07_one(&homo, 10, threads, mem, false) {
                for kv in w.iter_mut() { if kv.0 == "records" { kv.1 = "<70000 x A>|ACGTACGTACGTAAAAAAAAAAAA".into(); } }
                return Outcome { cases, witness: Some(w) };
            }
        }
        // a whole chunk of records without any valid k-mer, followed by more records (tiny memory ceiling: ~100 bases per chunk)
        let mut gap: Vec<Vec<u8>> = vec![b"ACGGTCATTGACCAGTTAGGCATCAGGATCCATTGACA".to_vec()];
        for _ in 0..60 { gap.push(b"ACGNAC".to_vec()); }
        gap.push(b"TTGACCATGGCATTAGACCAGGATTACAGGACCATTA".to_vec());
        for threads in [1usize, 2] {
            cases += 1;
            if let Some(w) = c07_one(&gap, 10, threads, 1e-7, false) { return Outcome { cases, witness: Some(w) }; }
        }
        // an output directory that still holds chunk files of an earlier run (merge(false)): the new result must not absorb them
        {
            let sc = Scratch::new("ctr2");
            let outd = sc.path("out"); std::fs::create_dir_all(&outd).unwrap();
            let in_a = sc.path("a.fa"); let in_b = sc.path("b.fa");
            write_fasta(&in_a, &[b"ACGGTCATTGACCAGTTAGGCATCAGGATCCATTGACAGGT".to_vec(), b"TTGACCATGGCATTAGACCAGG".to_vec()]);
            write_fasta(&in_b, &[vec![b'A'; 16]]);
            let (ia, ib, o1, o2) = (in_a.clone(), in_b.clone(), outd.clone(), outd.clone());
            let r = guarded(move || {
                let mut c = counter::CountComputer::new(ia, o1, 12); c.set_threads(4); c.count(); c.merge(false);
                let mut d = counter::CountComputer::new(ib, o2, 12); d.set_threads(4); d.count(); d.merge(true);
            });
            cases += 1;
            let text = std::fs::read_to_string(format!("{}/kmers.counts", outd)).unwrap_or_default();
            let lines: Vec<&str> = text.lines().collect();
            if r.is_err() || lines != vec!["0\t5"] {
                return Outcome { cases, witness: Some(vec![("records".into(), "AAAAAAAAAAAAAAAA".into()), ("k".into(), "12".into()), ("threads".into(), "4".into()), ("mem".into(), "6".into()), ("acgt".into(), "false".into()),
                    ("why".into(), format!("second run into a directory holding chunk files of an earlier run (merge(false)): got {:?}, expected [\"0\\t5\"]", &lines[..lines.len().min(4)]))]) };
            }
        }
        // records of exactly k, k+1 and k-1 bases (one window, two windows, none), also between ambiguous bytes
        for k in [4usize, 15, 31] {
            let base: Vec<u8> = (0..k + 1).map(|i| b"ACGGTCATTGACCAGTTAGGCATCAGGATCCATTG"[i % 35]).collect();
            let recs: Vec<Vec<u8>> = vec![base[..k].to_vec(), base.clone(), base[..k - 1].to_vec(), [b"N".to_vec(), base[..k].to_vec(), b"N".to_vec()].concat()];
            cases += 1;
            if let Some(w) = c07_one(&recs, k, 2, 6.0, false) { return Outcome { cases, witness: Some(w) }; }
        }
        // more than 2^20 bases in many records (beyond any batch size a reader hand-out might use), one and many workers
        {
            let mut r2 = Rng(o.seed.wrapping_mul(0x2545F4914F6CDD1D) | 5);
            let recs: Vec<Vec<u8>> = (0..1300).map(|_| random_seq(&mut r2, 1000, 0)).collect();
            for threads in [1usize, 8] {
                cases += 1;
                if let Some(mut w) = c07_one(&recs, 12, threads, 6.0, false) {
                    for kv in w.iter_mut() { if kv.0 == "records" { kv.1 = format!("<1300 random records of 1000 bases, seed {}>", o.seed); } }
                    return Outcome { cases, witness: Some(w) };
                }
            }
        }
        // many partitions (more than ten: partition numbers with two digits) with and without removal of the chunk files
        {
            let mut r2 = Rng(o.seed.wrapping_mul(0x2545F4914F6CDD1D) | 9);
            let recs: Vec<Vec<u8>> = (0..40).map(|_| random_seq(&mut r2, 120, 0)).collect();
            for threads in [11usize, 12, 16] {
                for delete in [false, true] {
                    cases += 1;
                    if let Some(w) = c07_run(&recs, 8, threads, 6.0, false, delete) { return Outcome { cases, witness: Some(w) }; }
                }
            }
        }
        // one worker (one partition) and a ceiling that yields two, three, ... chunks
        {
            let mut r2 = Rng(o.seed.wrapping_mul(0x2545F4914F6CDD1D) | 7);
            let recs: Vec<Vec<u8>> = (0..20).map(|_| random_seq(&mut r2, 100, 0)).collect();
            for mem in [4e-6f64, 8e-6, 1.2e-5, 1.6e-5, 3e-5] {
                for acgt in [false, true] {
                    cases += 1;
                    if let Some(w) = c07_one(&recs, 10, 1, mem, acgt) { return Outcome { cases, witness: Some(w) }; }
                }
            }
        }
        // several chunks, many workers, and k-mers that first appear in later chunks (met by several workers at once while merging)
        {
            let mut recs: Vec<Vec<u8>> = (0..48).map(|_| vec![b'A'; 10]).collect();
            recs.extend((0..2000).map(|_| vec![b'C'; 10]));
            for round in 0..(if o.thorough { 20 } else { 6 }) {
                cases += 1;
                if let Some(mut w) = c07_one(&recs, 3, 16, 1.28e-6, false) {
                    for kv in w.iter_mut() { if kv.0 == "records" { kv.1 = "<48 x A^10, then 2000 x C^10>".into(); } }
                    w.push(("round".into(), round.to_string()));
                    return Outcome { cases, witness: Some(w) };
                }
            }
        }
        // text rendering at the largest k: lines of k letters, a tab and a count of one, two or three digits
        for k in [28usize, 29, 30, 31] {
            let mut r2 = Rng(o.seed.wrapping_mul(0x2545F4914F6CDD1D) | 9);
            let base = random_seq(&mut r2, 60, 0);
            let mut recs: Vec<Vec<u8>> = (0..120).map(|_| base.clone()).collect();
            recs.push(random_seq(&mut r2, 80, 0));
            for acgt in [true, false] {
                cases += 1;
                if let Some(mut w) = c07_one(&recs, k, 3, 6.0, acgt) {
                    for kv in w.iter_mut() { if kv.0 == "records" { kv.1 = format!("<120 copies of one random 60-base record and one of 80 bases, seed {}>", o.seed); } }
                    return Outcome { cases, witness: Some(w) };
                }
            }
        }
        // multi-member gzip input: every member is counted
        {
            let recs: Vec<Vec<u8>> = vec![b"ACGGTCATTGACCAGTTAGG".to_vec(), b"TTGACCATGGCATTAG".to_vec(), b"ACGGTCATTGACC".to_vec(), b"GGGGGGGGGGGGG".to_vec(), b"AC".to_vec()];
            cases += 1;
            for kind in KINDS { if let Some(w) = with_kind(kind, &recs, || c07_one(&recs, 10, 2, 6.0, false)) { return Outcome { cases, witness: Some(w) }; } }
            // a pass of records without k-mers between passes with k-mers, one record per pass
            let recs: Vec<Vec<u8>> = vec![b"AAAAAAAA".to_vec(), b"NNNNNNNN".to_vec(), b"AAAAAAAA".to_vec()];
            for (threads, mem) in [(1usize, 5e-9f64), (1, 1e-8), (2, 5e-9)] {
                cases += 1;
                if let Some(w) = c07_one(&recs, 4, threads, mem, false) { return Outcome { cases, witness: Some(w) }; }
            }
        }
        let few = vec![b"AAAAAAAAAAAAAAAAAAAA".to_vec(), b"AAAAAAAAAAAAAAA".to_vec(), b"ACG".to_vec()];
        for (threads, mem) in [(8usize, 6.0f64), (3, 1e-7)] {
            cases += 1;
            if let Some(w) = c07_one(&few, 10, threads, mem, true) { return Outcome { cases, witness: Some(w) }; }
        }
    }
    for round in 0..(if o.thorough { 60 } else { 10 }) {
        let k = [1usize, 3, 10, 15, 21, 31][round % 6];
        let n = 1 + rng.below(40) as usize;
        let recs: Vec<Vec<u8>> = (0..n).map(|_| {
            let l = 1 + rng.below(200) as usize;
            let mut s: Vec<u8> = random_seq(&mut rng, l, 10).iter().map(|&b| if b < 0x21 || b > 0x7e || b == b'>' { b'N' } else { b }).collect();
            if round % 2 == 0 { for (i, b) in s.iter_mut().enumerate() { if clean(*b) { *b = b"AC"[i % 2]; } } }   // every worker hits the same k-mers
            s
        }).collect();
        for (threads, mem) in [(1usize, 6.0f64), (8, 6.0), (4, 2e-6), (3, 5e-7)] {
            cases += 1;
            if let Some(w) = c07_one(&recs, k, threads, mem, round % 3 == 0) { return Outcome { cases, witness: Some(w) }; }
        }
    }
    Outcome { cases, witness: None }
}
