//! C08: coverage histogram rows through the public API against the spec
use crate::spec::*;
use crate::util::*;
use crate::{Opts, Outcome};
use std::collections::HashMap;

fn run_cov(recs: &[Vec<u8>], k: usize, bs: usize, bc: usize, norm: bool, threads: usize, mem: f64) -> Result<String, String> { run_cov_alt(recs, None, k, bs, bc, norm, threads, mem) }

fn run_cov_alt(recs: &[Vec<u8>], alt: Option<&[Vec<u8>]>, k: usize, bs: usize, bc: usize, norm: bool, threads: usize, mem: f64) -> Result<String, String> {
    run_cov_alt_f(recs, alt, false, k, bs, bc, norm, threads, mem)
}
/// `alt_fastq`: the separate counting input is a FASTQ file (alt.fq) whatever the format of the records' file
pub fn run_cov_alt_f(recs: &[Vec<u8>], alt: Option<&[Vec<u8>]>, alt_fastq: bool, k: usize, bs: usize, bc: usize, norm: bool, threads: usize, mem: f64) -> Result<String, String> {
    let sc = Scratch::new("cov");
    let inp = sc.path(in_name());
    let outd = sc.path("out");
    std::fs::create_dir_all(&outd).unwrap();
    write_fasta(&inp, recs);
    let altp = sc.path(if alt_fastq { "alt.fq" } else { "alt.fa" });
    let has_alt = alt.is_some();
    if let Some(a) = alt {
        if alt_fastq {
            let mut t: Vec<u8> = Vec::new();
            for (i, r) in a.iter().enumerate() { t.extend_from_slice(format!("@a{}\n", i).as_bytes()); t.extend_from_slice(r); t.extend_from_slice(b"\n+\n"); t.extend(std::iter::repeat(b'I').take(r.len())); t.push(b'\n'); }
            std::fs::write(&altp, t).unwrap();
        } else { write_fasta(&altp, a); }
    }
    let (i2, o2) = (inp.clone(), outd.clone());
    let r = guarded(move || {
        let mut c = coverage::CovComputer::new(i2, o2, k, bs, bc);
        if has_alt { c.set_kmer_path(altp); }
        c.set_norm(norm);
        c.set_threads(threads);
        c.set_max_memory(mem);
        c.build_table().unwrap();
        c.compute_coverages();
    });
    match r {
        Ok(()) => std::fs::read_to_string(format!("{}/kmers.vectors", outd)).map_err(|e| format!("cannot read output: {}", e)),
        Err(e) => Err(format!("panic: {}", e)),
    }
}

fn c08_batch(recs: &[Vec<u8>], k: usize, bs: usize, bc: usize, norm: bool, threads: usize, mem: f64) -> Option<Vec<(String, String)>> {
    let mut counts: HashMap<u64, u64> = HashMap::new();
    for r in recs { for (_, f, rv) in kmers_spec(r, k) { *counts.entry(f.min(rv)).or_insert(0) += 1; } }
    let out = run_cov(recs, k, bs, bc, norm, threads, mem);
    let mut which = 0;
    let why = match out {
        Err(e) => e,
        Ok(text) => {
            let lines: Vec<&str> = text.split('\n').collect();
            let mut w = String::new();
            if lines.len() != recs.len() + 1 { w = format!("{} rows for {} records", lines.len() - 1, recs.len()); }
            else {
                'outer: for (i, r) in recs.iter().enumerate() {
                    let mut want = vec![0u64; bc];
                    let mut total = 0u64;
                    for (_, f, rv) in kmers_spec(r, k) {
                        let c = counts[&f.min(rv)];
                        want[((c as usize) / bs).min(bc - 1)] += 1;
                        total += 1;
                    }
                    let parts: Vec<&str> = lines[i].split(' ').collect();
                    if parts.len() != bc { which = i; w = format!("row {} has {} entries, expected {}", i, parts.len(), bc); break; }
                    for b in 0..bc {
                        let v: f64 = parts[b].parse().unwrap_or(f64::NAN);
                        let e = if norm { want[b] as f64 / total.max(1) as f64 } else { want[b] as f64 };
                        if !((v - e).abs() <= if norm { 5.1e-7 } else { 0.0 }) { which = i; w = format!("row {} bin {}: got {}, expected {}", i, b, v, e); break 'outer; }
                    }
                }
            }
            w
        }
    };
    if why.is_empty() { None } else {
        Some(vec![("records".into(), recs.iter().map(|r| show(r)).collect::<Vec<_>>().join("|")), ("record".into(), which.to_string()), ("k".into(), k.to_string()), ("bin_size".into(), bs.to_string()),
                  ("bin_count".into(), bc.to_string()), ("norm".into(), norm.to_string()), ("threads".into(), threads.to_string()), ("mem".into(), mem.to_string()), ("why".into(), why)])
    }
}

pub fn c08(o: &Opts) -> Outcome {
    let mut cases = 0u64;
    if let Some(inp) = &o.input {
        let recs: Vec<Vec<u8>> = inp["records"].split('|').map(unshow).collect();
        return Outcome { cases: 1, witness: c08_batch(&recs, inp["k"].parse().unwrap(), inp["bin_size"].parse().unwrap(), inp["bin_count"].parse().unwrap(),
                                                    inp["norm"] == "true", inp["threads"].parse().unwrap(), inp["mem"].parse().unwrap()) };
    }
    let mut rng = Rng(o.seed.wrapping_mul(0x9E3779B97F4A7C15) | 1);
    // degenerate inputs first: records with no bases, records shorter than k
    for recs in [vec![b"".to_vec()], vec![b"".to_vec(), b"".to_vec()], vec![b"ACGTACGT".to_vec(), b"".to_vec()], vec![b"AC".to_vec()], vec![b"NNNN".to_vec(), b"".to_vec()]] {
        for (k, mem) in [(3usize, 6.0f64), (3, 0.5), (7, 6.0)] {
            cases += 1;
            if let Some(w) = c08_batch(&recs, k, 2, 3, true, 2, mem) { return Outcome { cases, witness: Some(w) }; }
        }
    }
    // many records (more than any per-batch record limit) with one, two and many workers; one long record among them
    {
        let mut recs: Vec<Vec<u8>> = (0..1500).map(|i| { let l = 9 + (i * 5 % 17) as usize; (0..l).map(|j| b"ACGT"[(i + j * j + i / 3) % 4]).collect() }).collect();
        recs.insert(700, (0..70_000usize).map(|i| b"ACGGTCATTGACCAGT"[(i * 7 + i / 13) % 16]).collect());
        for threads in [1usize, 2, 16] {
            cases += recs.len() as u64;
            if let Some(mut w) = c08_batch(&recs, 7, 3, 5, false, threads, 6.0) {
                for kv in w.iter_mut() { if kv.0 == "records" { kv.1 = "<1500 short records and one of 70000 bases>".into(); } }
                return Outcome { cases, witness: Some(w) };
            }
        }
    }
    // records of exactly k, k+1 and k-1 bases (one window, two windows, none), also after an ambiguous byte
    for k in [4usize, 7, 15] {
        let base: Vec<u8> = (0..k + 1).map(|i| b"ACGGTCATTGACCAGTTAGG"[i % 20]).collect();
        let recs: Vec<Vec<u8>> = vec![base[..k].to_vec(), base.clone(), base[..k - 1].to_vec(), [b"N".to_vec(), base[..k].to_vec(), b"N".to_vec()].concat(), base[..k].to_vec()];
        for norm in [false, true] {
            cases += recs.len() as u64;
            if let Some(w) = c08_batch(&recs, k, 2, 4, norm, 2, 6.0) { return Outcome { cases, witness: Some(w) }; }
        }
    }
    // multi-member gzip input; a counting pass that holds only records without any k-mer, followed by more records
    {
        let recs: Vec<Vec<u8>> = vec![b"ACGTACGTTTGACCAGG".to_vec(), b"GGATCCATTGAC".to_vec(), b"ACGTACGTTTGACCAGG".to_vec(), b"TTGACCATGG".to_vec(), b"AC".to_vec()];
        cases += 1;
        for kind in KINDS { if let Some(w) = with_kind(kind, &recs, || c08_batch(&recs, 5, 2, 4, false, 2, 6.0)) { return Outcome { cases, witness: Some(w) }; } }
        let recs: Vec<Vec<u8>> = vec![b"AAAAAAAA".to_vec(), b"NNNNNNNN".to_vec(), b"AAAAAAAA".to_vec()];
        for (threads, mem) in [(1usize, 5e-9f64), (1, 1e-8), (2, 5e-9)] {
            cases += 1;
            if let Some(w) = c08_batch(&recs, 4, 4, 4, false, threads, mem) { return Outcome { cases, witness: Some(w) }; }
        }
    }
    // multiplicity / bin size exactly equal to the bin count (the first value that must be clamped into the last bin), one below, one above
    for bc in [1usize, 2, 3, 6] {
        for bs in [1usize, 2, 5] {
            let k = 7usize;
            let mut recs: Vec<Vec<u8>> = Vec::new();
            for (i, c) in [bs * bc, bs * bc + 1, (bs * bc).saturating_sub(1)].iter().enumerate() {
                if *c == 0 { continue; }
                recs.push(vec![b"ACG"[i]; c + k - 1]);
            }
            for norm in [false, true] {
                cases += 1;
                if let Some(w) = c08_batch(&recs, k, bs, bc, norm, 2, 6.0) { return Outcome { cases, witness: Some(w) }; }
            }
        }
    }
    // multiplicities that are exact multiples of the bin size (bin boundaries), many bins, multi-chunk counting
    for bs in [3usize, 5, 7, 10, 49, 98, 107] {
        for mult in [1usize, 2, 3] {
            let k = 7usize;
            let recs = vec![vec![b'A'; bs * mult + k - 1], vec![b'C'; bs * (mult + 1) + k - 1], b"ACGTACGTTTGACCA".to_vec()];
            cases += 1;
            if let Some(w) = c08_batch(&recs, k, bs, 5, false, 1, 6.0) { return Outcome { cases, witness: Some(w) }; }
        }
    }
    {
        let recs = vec![vec![b'A'; 400], vec![b'G'; 300], b"ACGTACGTAC".to_vec()];
        cases += 1;
        if let Some(w) = c08_batch(&recs, 7, 1, 300, false, 2, 6.0) { return Outcome { cases, witness: Some(w) }; }
        // several chunks in the counting phase (tiny memory ceiling), identical records
        let same: Vec<Vec<u8>> = (0..6).map(|_| b"ACGGTCATTGACCAGTTAGGCATCA".to_vec()).collect();
        for threads in [1usize, 4] {
            cases += 1;
            if let Some(w) = c08_batch(&same, 5, 2, 8, false, threads, 1e-7) { return Outcome { cases, witness: Some(w) }; }
        }
    }
    // extreme multiplicity with bins fine enough to resolve it (one k-mer about 70000 times)
    {
        let recs = vec![vec![b'A'; 70_000], b"ACGTACGTAC".to_vec()];
        cases += 1;
        if let Some(mut w) = c08_batch(&recs, 3, 1000, 100, false, 2, 6.0) {
            for kv in w.iter_mut() { if kv.0 == "records" { kv.1 = "<70000 x A>|ACGTACGTAC".into(); } }
            return Outcome { cases, witness: Some(w) };
        }
    }
    // one computer object used twice with a different counting input in between: the second result uses the second table
    {
        let sc = Scratch::new("cov2");
        let inp = sc.path(in_name()); let alt = sc.path("alt.fa"); let outd = sc.path("out"); let fresh = sc.path("fresh");
        std::fs::create_dir_all(&outd).unwrap(); std::fs::create_dir_all(&fresh).unwrap();
        let recs = vec![b"ACGTACGTACGTACGTACGTTTTTTTTT".to_vec()];
        write_fasta(&inp, &recs);
        write_fasta(&alt, &(0..9).map(|_| b"ACGTACGTACGTACGTACGT".to_vec()).collect::<Vec<_>>());
        let (i1, o1, a1) = (inp.clone(), outd.clone(), alt.clone());
        let (i2, o2, a2) = (inp.clone(), fresh.clone(), alt.clone());
        let r = guarded(move || {
            let mut c = coverage::CovComputer::new(i1, o1, 7, 4, 8); c.set_norm(false); c.set_threads(1);
            c.build_table().unwrap(); c.compute_coverages();
            c.set_kmer_path(a1); c.build_table().unwrap(); c.compute_coverages();
            let mut f = coverage::CovComputer::new(i2, o2, 7, 4, 8); f.set_norm(false); f.set_threads(1); f.set_kmer_path(a2);
            f.build_table().unwrap(); f.compute_coverages();
        });
        cases += 1;
        let x = std::fs::read(format!("{}/kmers.vectors", outd)).unwrap_or_default();
        let y = std::fs::read(format!("{}/kmers.vectors", fresh)).unwrap_or_default();
        if r.is_err() || x != y || x.is_empty() {
            return Outcome { cases, witness: Some(vec![("records".into(), show(&recs[0])), ("k".into(), "7".into()), ("why".into(), "one CovComputer used twice (build, compute, set_kmer_path, build, compute) differs from a fresh computer with the second counting input".into())]) };
        }
    }
    // a separate counting input that lacks some of the records' k-mers: absent k-mers fall in bin 0 and still count as windows
    {
        let recs = vec![b"ACGTACGTACGGTTTTTTTTTT".to_vec(), b"GGGGGGGGGGGGACGTACG".to_vec()];
        let alt = vec![b"TTTTTTTTTTTTTTTTTTTTTTTTT".to_vec(), b"ACGTACG".to_vec()];
        // ... in the same container format as the records and in another one (FASTA records, FASTQ counting input)
        for (norm, alt_fastq) in [(false, false), (true, false), (false, true), (true, true)] {
            if alt_fastq && !in_kind().is_empty() { continue; }
            cases += 1;
            let out = run_cov_alt_f(&recs, Some(&alt), alt_fastq, 7, 2, 4, norm, 1, 6.0);
            let mut counts: HashMap<u64, u64> = HashMap::new();
            for r in &alt { for (_, f, rv) in kmers_spec(r, 7) { *counts.entry(f.min(rv)).or_insert(0) += 1; } }
            let mut why = String::new();
            match out {
                Err(e) => why = e,
                Ok(text) => {
                    let lines: Vec<&str> = text.split('\n').collect();
                    for (i, r) in recs.iter().enumerate() {
                        let mut want = vec![0u64; 4]; let mut total = 0u64;
                        for (_, f, rv) in kmers_spec(r, 7) { let c = *counts.get(&f.min(rv)).unwrap_or(&0); want[((c as usize) / 2).min(3)] += 1; total += 1; }
                        let parts: Vec<&str> = lines.get(i).unwrap_or(&"").split(' ').collect();
                        for b in 0..4 {
                            let v: f64 = parts.get(b).and_then(|x| x.parse().ok()).unwrap_or(f64::NAN);
                            let e = if norm { want[b] as f64 / total.max(1) as f64 } else { want[b] as f64 };
                            if !((v - e).abs() <= 5.1e-7) { why = format!("separate counting input: row {} bin {}: got {}, expected {}", i, b, v, e); }
                        }
                    }
                }
            }
            if !why.is_empty() { return Outcome { cases, witness: Some(vec![("records".into(), "ACGTACGTACGGTTTTTTTTTT|GGGGGGGGGGGGACGTACG".into()), ("alt".into(), "TTTTTTTTTTTTTTTTTTTTTTTTT|ACGTACG".into()), ("alt_format".into(), (if alt_fastq { "fastq" } else { "as the records" }).into()), ("k".into(), "7".into()), ("why".into(), why)]) }; }
        }
    }
    let rounds = if o.thorough { 60 } else { 14 };
    for round in 0..rounds {
        let k = [1usize, 2, 3, 5, 8, 15, 31][round % 7];
        let bs = [1usize, 1, 2, 3, 7, 16][rng.below(6) as usize];
        let bc = [1usize, 2, 3, 5, 32][rng.below(5) as usize];
        let nrec = 1 + rng.below(6) as usize;
        let mut recs: Vec<Vec<u8>> = Vec::new();
        for _ in 0..nrec {
            let l = if rng.below(5) == 0 { 0 } else { 1 + rng.below(120) as usize };
            let amb = [0u64, 30][rng.below(2) as usize];
            let mut s: Vec<u8> = random_seq(&mut rng, l, amb).iter().map(|&b| if b < 0x21 || b > 0x7e || b == b'>' { b'N' } else { b }).collect();
            if rng.below(2) == 0 { for (i, b) in s.iter_mut().enumerate() { if clean(*b) { *b = b"ACA"[i % 3]; } } }   // high multiplicities
            recs.push(s);
        }
        // FASTA cannot represent an empty record followed by nothing distinguishable: keep at least the header line (write_fasta does)
        for norm in [true, false] {
            for (threads, mem) in [(1usize, 6.0f64), (4, 6.0), (2, 0.5)] {
                cases += 1;
                if let Some(w) = c08_batch(&recs, k, bs, bc, norm, threads, mem) { return Outcome { cases, witness: Some(w) }; }
            }
        }
    }
    Outcome { cases, witness: None }
}
