//! C16: degenerate inputs through every library entry point: no panic, one row per record, no placeholder
use crate::spec::*;
use crate::util::*;
use crate::{Opts, Outcome};

fn lines_of(path: &str) -> Result<usize, String> {
    let t = std::fs::read_to_string(path).map_err(|e| format!("no output file: {}", e))?;
    Ok(t.split('\n').filter(|l| !l.is_empty()).count())
}

fn write_input(path: &str, recs: &[Vec<u8>], raw_empty: bool) {
    if raw_empty { std::fs::write(path, b"").unwrap(); } else { write_fasta(path, recs); }
}

fn one(sub: &str, recs: &[Vec<u8>], empty_file: bool, k: usize, w: usize) -> Option<Vec<(String, String)>> {
    let sc = Scratch::new("degen");
    let inp = sc.path("in.fa");
    let out = sc.path("out.txt");
    let outd = sc.path("outd");
    std::fs::create_dir_all(&outd).unwrap();
    write_input(&inp, recs, empty_file);
    let n = if empty_file { 0 } else { recs.len() };
    let (i2, o2, d2) = (inp.clone(), out.clone(), outd.clone());
    let sub2 = sub.to_string();
    let th: usize = std::env::var("VERIF_THREADS").ok().and_then(|v| v.parse().ok()).unwrap_or(2);
    // run with a deadline: a call that never returns (a worker waiting for a thread that is never scheduled) is an observation too
    let (tx, rx) = std::sync::mpsc::channel();
    std::thread::spawn(move || { let r = guarded(move || -> Result<(), String> {
        match sub2.as_str() {
            "oligo-batch" => { let mut c = composition::oligo::OligoComputer::new(i2, o2, k); c.set_norm(false); c.set_threads(th); c.vectorise() }
            "oligo-mmap" => { let mut c = composition::oligo::OligoComputer::new(i2, o2, k); c.set_threads(th); c.vectorise() }
            "cgr" => { let mut c = composition::cgr::CgrComputer::new(i2, o2, 8); c.set_threads(th); c.vectorise() }
            "oligocgr" => { let mut c = composition::oligocgr::OligoCgrComputer::new(i2, o2, k, 8); c.set_threads(th); c.vectorise() }
            "cov" => { let mut c = coverage::CovComputer::new(i2, d2, k, 2, 3); c.set_threads(th); c.build_table()?; c.compute_coverages(); Ok(()) }
            "ctr" => { let mut c = counter::CountComputer::new(i2, d2, k); c.set_threads(th); c.count(); c.merge(true); Ok(()) }
            "s2m" => { misc::minimisers::seq_to_min(w, k, &i2, &o2, th); Ok(()) }
            "m2s" => { misc::minimisers::bin_sequences(w, k, &i2, &o2, th); Ok(()) }
            _ => Ok(()),
        }
    }); let _ = tx.send(r); });
    let r = match rx.recv_timeout(std::time::Duration::from_secs(120)) { Ok(r) => r, Err(_) => Err("the call did not return within 120 s (hang)".to_string()) };
    let why = match r {
        Err(e) => format!("panic: {}", e),
        Ok(Err(e)) => format!("error: {}", e),
        Ok(Ok(())) => {
            match sub {
                "oligo-batch" | "oligo-mmap" | "oligocgr" | "s2m" => match lines_of(&out) { Ok(l) if l == n => String::new(), Ok(l) => format!("{} rows for {} records", l, n), Err(e) => e },
                "cgr" => match std::fs::read_to_string(&out) { Ok(t) => { let l = t.matches('\n').count(); if l == n { String::new() } else { format!("{} rows for {} records", l, n) } }, Err(e) => e.to_string() },
                "cov" => match std::fs::read_to_string(format!("{}/kmers.vectors", outd)) { Ok(t) => { let l = t.matches('\n').count(); if l == n { String::new() } else { format!("{} rows for {} records", l, n) } }, Err(e) => e.to_string() },
                _ => String::new(),
            }
        }
    };
    let mut why = why;
    if why.is_empty() && (sub == "oligo-batch" || sub == "oligo-mmap" || sub == "oligocgr" || sub == "cov") {
        let t = if sub == "cov" { std::fs::read_to_string(format!("{}/kmers.vectors", outd)).unwrap_or_default() } else { std::fs::read_to_string(&out).unwrap_or_default() };
        if t.contains("NaN") || t.contains("inf") || t.contains('\0') { why = "a row holds NaN / inf / unwritten bytes instead of zeros".to_string(); }
    }
    if why.is_empty() && (sub == "s2m" || sub == "m2s") {
        let t = std::fs::read_to_string(&out).unwrap_or_default();
        // the placeholder u64::MAX renders as k T's through numeric_to_kmer (all bits set); real minimisers are canonical so never all-T unless k-mer is TTTT.. (whose canonical form is AAAA..)
        let allt: String = std::iter::repeat('T').take(k).collect();
        if t.contains(&allt) { why = format!("placeholder minimiser {} written as data", allt); }
    }
    if why.is_empty() { None } else {
        Some(vec![("sub".into(), sub.into()), ("records".into(), recs.iter().map(|r| show(r)).collect::<Vec<_>>().join("|")), ("empty_file".into(), empty_file.to_string()),
                  ("k".into(), k.to_string()), ("w".into(), w.to_string()), ("why".into(), why)])
    }
}

/// coverage with a counting input in another container format than the records (FASTA records with an empty one, FASTQ
/// counting input): no panic, one row per record
fn cov_alt_fastq_case(threads: usize) -> Option<Vec<(String, String)>> {
    let recs = vec![b"ACGTACGTACGG".to_vec(), b"".to_vec(), b"GGGGGGGACGTACG".to_vec()];
    let alt = vec![b"ACGTACGTACGTAAA".to_vec()];
    let why = match crate::p_cov::run_cov_alt_f(&recs, Some(&alt), true, 7, 2, 3, true, threads, 6.0) {
        Err(e) => e,
        Ok(t) => { let l = t.matches('\n').count(); if l == recs.len() { String::new() } else { format!("{} rows for {} records", l, recs.len()) } }
    };
    if why.is_empty() { None } else {
        Some(vec![("sub".into(), "cov-alt-fastq".into()), ("records".into(), "ACGTACGTACGG||GGGGGGGACGTACG (FASTA)".into()), ("alt".into(), "ACGTACGTACGTAAA (FASTQ)".into()), ("threads".into(), threads.to_string()), ("why".into(), why)])
    }
}

pub fn c16(o: &Opts) -> Outcome {
    let mut cases = 0u64;
    if let Some(inp) = &o.input {
        if inp["sub"] == "cov-alt-fastq" { return Outcome { cases: 1, witness: cov_alt_fastq_case(inp["threads"].parse().unwrap()) }; }
        let recs: Vec<Vec<u8>> = if inp["records"].is_empty() { vec![vec![]] } else { inp["records"].split('|').map(unshow).collect() };
        if let Some(t) = inp.get("threads") { std::env::set_var("VERIF_THREADS", t); }
        return Outcome { cases: 1, witness: one(&inp["sub"], &recs, inp["empty_file"] == "true", inp["k"].parse().unwrap(), inp["w"].parse().unwrap()) };
    }
    if in_kind().is_empty() {
        for threads in [1usize, 4] {
            cases += 1;
            if let Some(w) = cov_alt_fastq_case(threads) { return Outcome { cases, witness: Some(w) }; }
        }
    }
    let sets: Vec<(Vec<Vec<u8>>, bool)> = vec![
        (vec![], true),
        (vec![b"".to_vec()], false),
        (vec![b"".to_vec(), b"".to_vec()], false),
        (vec![b"A".to_vec()], false),
        (vec![b"ACG".to_vec(), b"".to_vec(), b"AC".to_vec()], false),
        (vec![b"NNNNNNNNNN".to_vec()], false),
        (vec![b"NACGTACGTACGTN".to_vec(), b"ACGTACN".to_vec()], false),
        (vec![b"ACGTACGTAC".to_vec()], false),
    ];
    for th in ["2", "1", "16"] {
    std::env::set_var("VERIF_THREADS", th);
    let tag = |w: Vec<(String, String)>| -> Vec<(String, String)> { let mut w = w; w.push(("threads".into(), th.to_string())); w };
    for (recs, empty) in &sets {
        for sub in ["oligo-batch", "oligo-mmap", "oligocgr", "cov", "ctr"] {
            for k in [3usize, 7] {
                if sub == "oligocgr" && k > 5 { continue; }
                if sub == "ctr" && k < 7 { continue; }
                cases += 1;
                if let Some(w) = one(sub, recs, *empty, k, 0) { return Outcome { cases, witness: Some(tag(w)) }; }
            }
        }
        // cgr refuses non-nucleotide bytes: only clean records
        if recs.iter().all(|r| r.iter().all(|&b| clean(b))) {
            cases += 1;
            if let Some(w) = one("cgr", recs, *empty, 3, 0) { return Outcome { cases, witness: Some(tag(w)) }; }
        }
        for sub in ["s2m", "m2s"] {
            for (m, w) in [(7usize, 0usize), (7, 10), (3, 0), (3, 5), (10, 31)] {
                cases += 1;
                if let Some(wt) = one(sub, recs, *empty, m, w) { return Outcome { cases, witness: Some(tag(wt)) }; }
            }
        }
    }
    }
    std::env::remove_var("VERIF_THREADS");
    // extreme but legal option values on ordinary and degenerate records
    {
        let recs = vec![b"ACGTACGTACGTTTGACC".to_vec(), b"AC".to_vec(), b"NNNNNNNN".to_vec()];
        for (bs, bc) in [(1usize << 32, 5usize), (1 << 33, 7), ((1 << 32) - 1, 5), (5, 1), (usize::MAX / 2, 2)] {
            let sc = Scratch::new("degen");
            let inp = sc.path("in.fa"); let outd = sc.path("outd");
            std::fs::create_dir_all(&outd).unwrap();
            write_fasta(&inp, &recs);
            let (i2, d2) = (inp.clone(), outd.clone());
            cases += 1;
            let r = guarded(move || { let mut c = coverage::CovComputer::new(i2, d2, 7, bs, bc); c.set_threads(2); c.build_table().unwrap(); c.compute_coverages(); });
            let rows = std::fs::read_to_string(format!("{}/kmers.vectors", outd)).map(|t| t.matches('\n').count()).unwrap_or(0);
            if r.is_err() || rows != recs.len() {
                return Outcome { cases, witness: Some(vec![("sub".into(), "cov".into()), ("records".into(), recs.iter().map(|r| show(r)).collect::<Vec<_>>().join("|")), ("empty_file".into(), "false".into()), ("k".into(), "7".into()), ("w".into(), "0".into()),
                    ("why".into(), format!("bin size {} / bin count {}: {} rows for {} records{}", bs, bc, rows, recs.len(), if r.is_err() { " (panic)" } else { "" }))]) };
            }
        }
    }
    Outcome { cases, witness: None }
}
