//! C01 / C02: the real kmer crate against the spec
use crate::spec::*;
use crate::{Opts, Outcome};
use kmer::kmer::KmerGenerator;
use kmer::numeric_to_kmer;

fn guarded<T>(f: impl FnOnce() -> T + std::panic::UnwindSafe) -> Result<T, String> {
    let prev = std::panic::take_hook();
    std::panic::set_hook(Box::new(|_| {}));
    let r = std::panic::catch_unwind(f).map_err(|e| {
        if let Some(s) = e.downcast_ref::<&str>() { s.to_string() } else if let Some(s) = e.downcast_ref::<String>() { s.clone() } else { "panic".to_string() }
    });
    std::panic::set_hook(prev);
    r
}

/// the iterator seen through the standard adaptors (skip, nth, step_by, count, last): the same items as by next()
// generic over the concrete iterator type: a boxed `dyn Iterator` would route fold / count / last through the default
// methods (built on next()) and hide an override of the type under test
fn adaptors<T: PartialEq + std::fmt::Debug + Clone + 'static, I: Iterator<Item = T>>(what: &str, want: &[T], make: &dyn Fn() -> I) -> String {
    for n in 0..4usize {
        let got: Vec<T> = make().skip(n).collect();
        let exp: Vec<T> = want.iter().skip(n).cloned().collect();
        if got != exp { return format!("{}: skip({}) gives {:?}.., next() gives {:?}..", what, n, &got[..got.len().min(4)], &exp[..exp.len().min(4)]); }
        let got = make().nth(n);
        if got.as_ref() != want.get(n) { return format!("{}: nth({}) gives {:?}, expected {:?}", what, n, got, want.get(n)); }
    }
    let got: Vec<T> = make().step_by(2).collect();
    let exp: Vec<T> = want.iter().step_by(2).cloned().collect();
    if got != exp { return format!("{}: step_by(2) gives {:?}.., expected {:?}..", what, &got[..got.len().min(4)], &exp[..exp.len().min(4)]); }
    if make().count() != want.len() { return format!("{}: count() gives {}, expected {}", what, make().count(), want.len()); }
    if make().last().as_ref() != want.last() { return format!("{}: last() differs", what); }
    // part of the stream taken with next(), the rest drained by the internal-iteration consumers (fold, for_each, count, last):
    // together they are the one stream (state carried from the external to the internal iteration)
    for n in 1..4usize {
        let mut it = make();
        let mut got: Vec<T> = Vec::new();
        for _ in 0..n { if let Some(x) = it.next() { got.push(x); } }
        let rest: Vec<T> = it.fold(Vec::new(), |mut v, x| { v.push(x); v });
        got.extend(rest);
        if got.as_slice() != want { return format!("{}: {} x next() then fold() gives {:?}.., expected {:?}..", what, n, &got[..got.len().min(6)], &want[..want.len().min(6)]); }
        let mut it = make();
        let mut taken = 0usize;
        for _ in 0..n { if it.next().is_some() { taken += 1; } }
        let mut rest: Vec<T> = Vec::new();
        it.by_ref().for_each(|x| rest.push(x));
        if taken + rest.len() != want.len() || rest.as_slice() != &want[taken..] { return format!("{}: {} x next() then for_each() gives {} more items, expected {}", what, n, rest.len(), want.len() - taken); }
        let mut it = make();
        for _ in 0..n { let _ = it.next(); }
        let c = it.count();
        if c != want.len().saturating_sub(n) { return format!("{}: {} x next() then count() gives {}, expected {}", what, n, c, want.len().saturating_sub(n)); }
    }
    let mut it = make();
    let (lo, hi) = it.size_hint();
    if lo > want.len() || hi.map(|h| h < want.len()).unwrap_or(false) { return format!("{}: size_hint() = ({}, {:?}) excludes the real length {}", what, lo, hi, want.len()); }
    let _ = it.next();
    String::new()
}

pub fn adaptors_kmer(s: &[u8], k: usize) -> Option<Vec<(String, String)>> {
    let want: Vec<(u64, u64)> = kmers_spec(s, k).into_iter().map(|(_, f, r)| (f, r)).collect();
    let s2: &'static [u8] = Box::leak(s.to_vec().into_boxed_slice());
    let w2 = want.clone();
    let r = guarded(move || adaptors("KmerGenerator", &w2, &|| KmerGenerator::new(s2, k)));
    let why = match r { Ok(w) => w, Err(e) => format!("panic: {}", e) };
    if why.is_empty() { None } else { Some(vec![("seq".into(), show(s)), ("k".into(), k.to_string()), ("via".into(), "adaptors".into()), ("why".into(), why)]) }
}
pub fn adaptors_min(kmin: bool, s: &[u8], w: usize, m: usize) -> Option<Vec<(String, String)>> {
    let want = runs_spec(s, w, m);
    let s2: &'static [u8] = Box::leak(s.to_vec().into_boxed_slice());
    let w2 = want.clone();
    let r = guarded(move || {
        if kmin { adaptors("KmerMinimiserGenerator", &w2, &|| kmer::kmer_minimisers::KmerMinimiserGenerator::new(s2, w, m).map(|x| (x.0, x.1, x.2))) }
        else { adaptors("MinimiserGenerator", &w2, &|| kmer::minimiser::MinimiserGenerator::new(s2, w, m)) }
    });
    let why = match r { Ok(x) => x, Err(e) => format!("panic: {}", e) };
    if why.is_empty() { None } else { Some(vec![("seq".into(), show(s)), ("w".into(), w.to_string()), ("m".into(), m.to_string()), ("via".into(), "adaptors".into()), ("why".into(), why)]) }
}

fn c01_one(s: &[u8], k: usize) -> Option<Vec<(String, String)>> {
    let want: Vec<(u64, u64)> = kmers_spec(s, k).into_iter().map(|(_, f, r)| (f, r)).collect();
    let s2 = s.to_vec();
    let got = guarded(move || {
        let mut g = KmerGenerator::new(&s2, k);
        let mut v: Vec<(u64, u64)> = Vec::new();
        while let Some(x) = g.next() { v.push(x); if v.len() > s2.len() + 2 { break; } }
        // an exhausted iterator stays exhausted: anything it yields after None is "something else"
        for _ in 0..3 { if let Some(x) = g.next() { v.push(x); } }
        v
    });
    let bad = match &got {
        Ok(g) => *g != want || g.iter().any(|&(f, _)| f >= pow4(k)),
        Err(_) => true,
    };
    if bad {
        return Some(vec![
            ("seq".into(), show(s)),
            ("k".into(), k.to_string()),
            ("expected".into(), format!("{:?}", want)),
            ("actual".into(), match got { Ok(g) => format!("{:?}", g), Err(e) => format!("panic: {}", e) }),
        ]);
    }
    None
}

pub fn c01(o: &Opts) -> Outcome {
    let mut cases = 0u64;
    if let Some(inp) = &o.input {
        let s = unshow(&inp["seq"]);
        let k: usize = inp["k"].parse().unwrap();
        if inp.contains_key("via") { return Outcome { cases: 1, witness: adaptors_kmer(&s, k) }; }
        return Outcome { cases: 1, witness: c01_one(&s, k) };
    }
    {
        let mut rng = Rng(o.seed.wrapping_mul(0x2545F4914F6CDD1D) | 1);
        for _ in 0..400 {
            let k = 1 + rng.below(6) as usize;
            let l = rng.below(40) as usize;
            let s = random_seq(&mut rng, l, 80);
            cases += 1;
            if let Some(w) = adaptors_kmer(&s, k) { return Outcome { cases, witness: Some(w) }; }
        }
    }
    // exhaustive small: alphabet of bases (both cases, U) and ambiguous bytes
    let alpha = b"ACGTNu";
    let maxlen = if o.thorough { 8 } else { 7 };
    for k in 1..=4usize {
        let mut w = None;
        for_all_strings(alpha, maxlen, &mut |s| {
            cases += 1;
            w = c01_one(s, k);
            w.is_some()
        });
        if w.is_some() {
            return Outcome { cases, witness: w };
        }
    }
    // every single byte value >= 4 inside a clean context
    for b in 4..=255u8 {
        for k in [1usize, 2, 3] {
            let s = [b'A', b'C', b, b'G', b'T', b, b];
            cases += 1;
            if let Some(w) = c01_one(&s, k) { return Outcome { cases, witness: Some(w) }; }
        }
    }
    let mut rng = Rng(o.seed.wrapping_mul(0x9E3779B97F4A7C15) | 1);
    // long unambiguous stretches (beyond 2^8 and 2^16 bases: any narrow run counter would wrap), then an ambiguous byte, then more
    for (len, k) in [(300usize, 3usize), (70_000, 2), (70_000, 31), (66_000, 17), (if o.thorough { 300_000 } else { 131_100 }, 5)] {
        let mut s = random_seq(&mut rng, len, 0);
        let n = s.len();
        s.extend_from_slice(b"N");
        s.extend(random_seq(&mut rng, 40, 0));
        cases += 1;
        if let Some(mut w) = c01_one(&s, k) {
            for kv in w.iter_mut() { if kv.0 == "seq" { kv.1 = format!("<{} random unambiguous bases, seed {}>N<40 more>", n, o.seed); } }
            return Outcome { cases, witness: Some(w) };
        }
    }
    let n = if o.thorough { 200_000 } else { 30_000 };
    for _ in 0..n {
        let k = 1 + rng.below(31) as usize;
        let lim = if rng.below(4) == 0 { 400 } else { 80 };
        let len = rng.below(lim) as usize;
        let amb = [0u64, 5, 30, 200][rng.below(4) as usize];
        let s = random_seq(&mut rng, len, amb);
        cases += 1;
        if let Some(w) = c01_one(&s, k) { return Outcome { cases, witness: Some(w) }; }
    }
    Outcome { cases, witness: None }
}

fn c02_code(x: u64, k: usize) -> Option<Vec<(String, String)>> {
    let rc = guarded(move || KmerGenerator::rev_comp(x, k));
    let txt = guarded(move || numeric_to_kmer(x, k));
    let mut why = String::new();
    match (&rc, &txt) {
        (Ok(rc), Ok(txt)) => {
            if *rc != rc_num(x, k) { why = format!("rev_comp={} expected {}", rc, rc_num(x, k)); }
            else if KmerGenerator::rev_comp(*rc, k) != x { why = "rev_comp not an involution".into(); }
            else if txt.len() != k || !txt.bytes().all(|b| b"ACGT".contains(&b)) { why = format!("text {:?} is not k letters over ACGT", txt); }
            else if fcode(txt.as_bytes()) != x { why = format!("text {:?} re-encodes to {}", txt, fcode(txt.as_bytes())); }
            else if fcode(&rc_text(txt.as_bytes())) != *rc { why = "rev_comp differs from code of reverse-complemented text".into(); }
            else {
                // decoding and the iterator's encoding are inverse: the decoded text, read back by the iterator, is the one pair (x, rev_comp(x))
                let t2 = txt.clone().into_bytes();
                let back: Vec<(u64, u64)> = KmerGenerator::new(&t2, k).collect();
                if back != vec![(x, *rc)] { why = format!("the decoded text {:?} read back by the iterator gives {:?}, expected [({}, {})]", txt, back, x, rc); }
            }
        }
        (Err(e), _) | (_, Err(e)) => why = format!("panic: {}", e),
    }
    if why.is_empty() { None } else {
        Some(vec![("x".into(), x.to_string()), ("k".into(), k.to_string()), ("why".into(), why)])
    }
}

fn c02_seq(s: &[u8], k: usize) -> Option<Vec<(String, String)>> {
    let s2 = s.to_vec();
    let a = guarded(move || KmerGenerator::new(&s2, k).collect::<Vec<(u64, u64)>>());
    let rcs = rc_text(s);
    let b = guarded(move || KmerGenerator::new(&rcs, k).collect::<Vec<(u64, u64)>>());
    let why = match (&a, &b) {
        (Ok(a), Ok(b)) => {
            if a.iter().any(|&(f, r)| r != rc_num(f, k)) { "second component is not the reverse complement of the first".to_string() }
            else {
                let rev: Vec<(u64, u64)> = a.iter().rev().map(|&(f, r)| (r, f)).collect();
                if *b != rev { "stream of the reverse-complemented sequence is not the reversed, strand-swapped stream".to_string() } else { String::new() }
            }
        }
        _ => "panic".to_string(),
    };
    if why.is_empty() { None } else {
        Some(vec![("seq".into(), show(s)), ("k".into(), k.to_string()), ("why".into(), why)])
    }
}

pub fn c02(o: &Opts) -> Outcome {
    let mut cases = 0u64;
    if let Some(inp) = &o.input {
        let k: usize = inp["k"].parse().unwrap();
        if let Some(x) = inp.get("x") {
            return Outcome { cases: 1, witness: c02_code(x.parse().unwrap(), k) };
        }
        return Outcome { cases: 1, witness: c02_seq(&unshow(&inp["seq"]), k) };
    }
    let kmax = if o.thorough { 10 } else { 8 };
    for k in 1..=kmax {
        for x in 0..pow4(k) {
            cases += 1;
            if let Some(w) = c02_code(x, k) { return Outcome { cases, witness: Some(w) }; }
        }
    }
    let mut rng = Rng(o.seed.wrapping_mul(0x9E3779B97F4A7C15) | 1);
    for k in 1..=31usize {
        for x in [0u64, pow4(k) - 1, pow4(k) / 2, 1, pow4(k) / 3] {
            cases += 1;
            if let Some(w) = c02_code(x % pow4(k), k) { return Outcome { cases, witness: Some(w) }; }
        }
        for _ in 0..2000 {
            cases += 1;
            if let Some(w) = c02_code(rng.next() % pow4(k), k) { return Outcome { cases, witness: Some(w) }; }
        }
    }
    // long unambiguous stretches (beyond 2^8 and 2^16 bases)
    for (len, k) in [(300usize, 4usize), (70_000, 3), (66_000, 31)] {
        let s = random_seq(&mut rng, len, 0);
        cases += 1;
        if let Some(mut w) = c02_seq(&s, k) {
            for kv in w.iter_mut() { if kv.0 == "seq" { kv.1 = format!("<{} random unambiguous bases, seed {}>", len, o.seed); } }
            return Outcome { cases, witness: Some(w) };
        }
    }
    for _ in 0..20_000 {
        let k = 1 + rng.below(31) as usize;
        let len = rng.below(120) as usize;
        let amb = [0u64, 20, 100][rng.below(3) as usize];
        let s = random_seq(&mut rng, len, amb);
        cases += 1;
        if let Some(w) = c02_seq(&s, k) { return Outcome { cases, witness: Some(w) }; }
    }
    Outcome { cases, witness: None }
}
