//! C10: the two minimiser listings through the public file API (misc::minimisers::{seq_to_min, bin_sequences})
//! against the run specification: one s2m line per record (id, runs in order); m2s = exact inversion of s2m.
use crate::spec::*;
use crate::util::*;
use crate::{Opts, Outcome};
use std::collections::BTreeMap;

fn weff(w: usize, len: usize, m: usize) -> usize { if w == 0 { len.max(m) } else { w } }

fn c10_one(recs: &[Vec<u8>], w: usize, m: usize, threads: usize) -> Option<Vec<(String, String)>> {
    let sc = Scratch::new("lines");
    let inp = sc.path(in_name());
    let o1 = sc.path("s2m.txt");
    let o2 = sc.path("m2s.txt");
    write_fasta(&inp, recs);
    maybe_stale(&o1);
    maybe_stale(&o2);
    let (i1, p1) = (inp.clone(), o1.clone());
    let r1 = guarded(move || misc::minimisers::seq_to_min(w, m, &i1, &p1, threads));
    let (i2, p2) = (inp.clone(), o2.clone());
    let r2 = guarded(move || misc::minimisers::bin_sequences(w, m, &i2, &p2, threads));
    let mut why = String::new();
    // expected
    let mut want_lines: Vec<String> = Vec::new();
    let mut want_inv: BTreeMap<String, Vec<(String, usize, usize)>> = BTreeMap::new();
    for (i, r) in recs.iter().enumerate() {
        let id = rec_id(i);
        let mut line = id.clone();
        for (v, a, b) in runs_spec(r, weff(w, r.len(), m), m) {
            let t = text_of(v, m);
            line.push_str(&format!("\t{}:{}-{}", t, a, b));
            want_inv.entry(t).or_default().push((id.clone(), a, b));
        }
        line.push('\t');
        want_lines.push(line);
    }
    if let Err(e) = r1 { why = format!("seq_to_min panicked: {}", e); }
    else if let Err(e) = r2 { why = format!("bin_sequences panicked: {}", e); }
    if why.is_empty() {
        let t = std::fs::read_to_string(&o1).unwrap_or_default();
        if !t.is_empty() && !t.ends_with('\n') { why = "s2m: output does not end with a newline".into(); }
        let mut got: Vec<String> = t.split('\n').map(|s| s.to_string()).collect();
        got.pop();
        let mut g2 = got.clone(); g2.sort();
        let mut w2 = want_lines.clone(); w2.sort();
        if why.is_empty() && g2 != w2 {
            let miss = w2.iter().find(|l| !g2.contains(l));
            let extra = g2.iter().find(|l| !w2.contains(l));
            why = format!("s2m: {} lines for {} records; expected line missing: {:?}; unexpected line: {:?}", got.len(), recs.len(),
                          miss.map(|s| &s[..s.len().min(100)]), extra.map(|s| &s[..s.len().min(100)]));
        }
        if why.is_empty() && threads == 1 && got != want_lines { why = "s2m: with one worker the lines are not in input order".into(); }
    }
    if why.is_empty() {
        let t = std::fs::read_to_string(&o2).unwrap_or_default();
        let mut got_inv: BTreeMap<String, Vec<(String, usize, usize)>> = BTreeMap::new();
        for line in t.split('\n') {
            if line.is_empty() { continue; }
            let mut it = line.splitn(2, '\t');
            let key = it.next().unwrap_or("").to_string();
            let rest = it.next().unwrap_or("");
            let mut v: Vec<(String, usize, usize)> = Vec::new();
            let inner = rest.trim_start_matches('[').trim_end_matches(']');
            let mut bad = false;
            for part in inner.split("), (") {
                let p = part.trim_start_matches('(').trim_end_matches(')');
                if p.is_empty() { continue; }
                let f: Vec<&str> = p.split(", ").collect();
                if f.len() != 3 { bad = true; break; }
                match (f[1].parse::<usize>(), f[2].parse::<usize>()) {
                    (Ok(a), Ok(b)) => v.push((f[0].trim_matches('"').to_string(), a, b)),
                    _ => { bad = true; break; }
                }
            }
            if bad { why = format!("m2s: unparsable line {:?}", &line[..line.len().min(100)]); break; }
            if got_inv.contains_key(&key) { why = format!("m2s: two lines for minimiser {}", key); break; }
            got_inv.insert(key, v);
        }
        if why.is_empty() {
            for (k, v) in want_inv.iter() {
                match got_inv.get(k) {
                    None => { why = format!("m2s: no line for minimiser {} (s2m attributes {} runs to it)", k, v.len()); break; }
                    Some(g) => {
                        let mut a = g.clone(); a.sort();
                        let mut b = v.clone(); b.sort();
                        if a != b { why = format!("m2s: minimiser {} lists {:?}.., s2m attributes {:?}..", k, &a[..a.len().min(4)], &b[..b.len().min(4)]); break; }
                    }
                }
            }
        }
        if why.is_empty() {
            for k in got_inv.keys() { if !want_inv.contains_key(k) { why = format!("m2s: line for minimiser {} that no record has", k); break; } }
        }
    }
    if why.is_empty() { None } else {
        Some(vec![("records".into(), recs.iter().map(|r| show(r)).collect::<Vec<_>>().join("|")), ("w".into(), w.to_string()), ("m".into(), m.to_string()),
                  ("threads".into(), threads.to_string()), ("why".into(), why)])
    }
}

fn printable(v: Vec<u8>) -> Vec<u8> { v.iter().map(|&b| if b < 0x21 || b > 0x7e || b == b'>' { b'N' } else { b }).collect() }

pub fn c10(o: &Opts) -> Outcome {
    let mut cases = 0u64;
    if let Some(inp) = &o.input {
        let recs: Vec<Vec<u8>> = if inp["records"].is_empty() { vec![vec![]] } else { inp["records"].split('|').map(unshow).collect() };
        return Outcome { cases: 1, witness: c10_one(&recs, inp["w"].parse().unwrap(), inp["m"].parse().unwrap(), inp["threads"].parse().unwrap()) };
    }
    let mut rng = Rng(o.seed.wrapping_mul(0x9E3779B97F4A7C15) | 1);
    // small alphabets make ties and shared minimisers between records; ambiguous bytes split runs
    for (w, m) in [(0usize, 2usize), (3, 2), (5, 3), (0, 7), (10, 7), (31, 7), (12, 10), (0, 10), (60, 28), (29, 28), (0, 28), (2, 1), (0, 1)] {
        for threads in [1usize, 2, 4, 8] {
            let n = 3 + rng.below(if o.thorough { 60 } else { 20 }) as usize;
            let mut recs: Vec<Vec<u8>> = (0..n).map(|_| {
                let l = rng.below(if w == 0 { 60 } else { 150 }) as usize;
                let low = rng.below(3) == 0;
                if low { (0..l).map(|i| b"AACAT"[(i + rng.below(2) as usize) % 5]).collect() } else { printable(random_seq(&mut rng, l, 25)) }
            }).collect();
            // the same sequence twice (two ids under every minimiser), a record shorter than m, one with no bases
            let dup = recs[0].clone(); recs.push(dup);
            recs.push(b"AC".to_vec());
            recs.push(vec![]);
            cases += recs.len() as u64;
            if let Some(wt) = c10_one(&recs, w, m, threads) { return Outcome { cases, witness: Some(wt) }; }
        }
    }
    // many short records against few minimisers: every worker updates the same table entries
    {
        let n = if o.thorough { 4000 } else { 600 };
        let recs: Vec<Vec<u8>> = (0..n).map(|i| { let l = 8 + (i % 7) as usize; (0..l).map(|j| b"ACG"[(i + j * j) % 3]).collect() }).collect();
        for threads in [3usize, 16] {
            cases += recs.len() as u64;
            if let Some(mut wt) = c10_one(&recs, 5, 3, threads) {
                for kv in wt.iter_mut() { if kv.0 == "records" { kv.1 = format!("<{} short records over ACG>", n); } }
                return Outcome { cases, witness: Some(wt) };
            }
        }
    }
    // identical long records handled by many workers in lock step: every new minimiser is met by several workers at once
    {
        let one: Vec<u8> = random_seq(&mut rng, 3000, 0);
        let recs: Vec<Vec<u8>> = (0..64).map(|_| one.clone()).collect();
        for round in 0..(if o.thorough { 30 } else { 4 }) {
            cases += recs.len() as u64;
            if let Some(mut wt) = c10_one(&recs, 12, 7, 16) {
                for kv in wt.iter_mut() { if kv.0 == "records" { kv.1 = format!("<64 copies of one random 3000-base record, seed {}>", o.seed); } }
                wt.push(("round".into(), round.to_string()));
                return Outcome { cases, witness: Some(wt) };
            }
        }
    }
    // records with thousands of runs each (lines far longer than any buffer or chunk of fields) and several workers
    {
        let recs: Vec<Vec<u8>> = (0..24).map(|_| printable(random_seq(&mut rng, 30_000, 1))).collect();
        for threads in [1usize, 8] {
            cases += recs.len() as u64;
            if let Some(mut wt) = c10_one(&recs, 12, 7, threads) {
                for kv in wt.iter_mut() { if kv.0 == "records" { kv.1 = format!("<24 random records of 30000 bases, seed {}>", o.seed); } }
                return Outcome { cases, witness: Some(wt) };
            }
        }
    }
    // two records with the same identifier and the same bases (a duplicated read): every run is listed twice, in both outputs
    {
        let base: Vec<Vec<u8>> = vec![b"ACGTTGCATTGACC".to_vec(), b"ACGTTGCATTGACC".to_vec(), b"GGATCGGATC".to_vec(), b"GGATCGGATCA".to_vec(), b"TTGACCA".to_vec(), b"TTGACCA".to_vec()];
        for threads in [1usize, 4] {
            cases += base.len() as u64;
            if let Some(wt) = with_ids("dup", || c10_one(&base, 6, 3, threads)) { return Outcome { cases, witness: Some(wt) }; }
        }
    }
    // multi-member gzip input
    {
        let recs: Vec<Vec<u8>> = vec![b"ACGTTGCATTGACC".to_vec(), b"GGATCGGATC".to_vec(), b"ACGTTGCATTGACCA".to_vec(), b"TTGACCATGGCATT".to_vec(), b"AC".to_vec()];
        cases += recs.len() as u64;
        for kind in KINDS { if let Some(wt) = with_kind(kind, &recs, || c10_one(&recs, 6, 3, 2)) { return Outcome { cases, witness: Some(wt) }; } }
    }
    // an output path that already holds a longer listing
    {
        let recs: Vec<Vec<u8>> = vec![b"ACGTTGCATTGACC".to_vec(), b"GGATCGGATC".to_vec()];
        cases += 2;
        std::env::set_var("VERIF_STALE_OUTPUT", "1");
        let wt = c10_one(&recs, 6, 3, 2);
        std::env::remove_var("VERIF_STALE_OUTPUT");
        if let Some(mut wt) = wt { wt.push(("stale_output".into(), "the output files existed before the run, holding 400 longer lines".into())); return Outcome { cases, witness: Some(wt) }; }
    }
    Outcome { cases, witness: None }
}
