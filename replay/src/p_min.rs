//! C09 / C18: the real minimiser iterators against runs_spec
use crate::spec::*;
use crate::{Opts, Outcome};
use kmer::kmer_minimisers::KmerMinimiserGenerator;
use kmer::minimiser::MinimiserGenerator;

fn guarded<T>(f: impl FnOnce() -> T + std::panic::UnwindSafe) -> Result<T, String> {
    let prev = std::panic::take_hook();
    std::panic::set_hook(Box::new(|_| {}));
    let r = std::panic::catch_unwind(f).map_err(|e| {
        if let Some(s) = e.downcast_ref::<&str>() { s.to_string() } else if let Some(s) = e.downcast_ref::<String>() { s.clone() } else { "panic".to_string() }
    });
    std::panic::set_hook(prev);
    r
}

fn c09_one(s: &[u8], w: usize, m: usize) -> Option<Vec<(String, String)>> {
    let want = runs_spec(s, w, m);
    let s2 = s.to_vec();
    let got = guarded(move || {
        let mut out = Vec::new();
        let mut g = MinimiserGenerator::new(&s2, w, m);
        // the iterator must terminate: more than len+2 items is already wrong
        for _ in 0..s2.len() + 3 {
            match g.next() { Some(x) => out.push(x), None => break }
        }
        out
    });
    let bad = match &got { Ok(g) => *g != want, Err(_) => true };
    if bad {
        return Some(vec![
            ("seq".into(), show(s)), ("w".into(), w.to_string()), ("m".into(), m.to_string()),
            ("expected".into(), format!("{:?}", want)),
            ("actual".into(), match got { Ok(g) => format!("{:?}", g), Err(e) => format!("panic: {}", e) }),
        ]);
    }
    None
}

fn c18_one(s: &[u8], w: usize, m: usize) -> Option<Vec<(String, String)>> {
    let want = runs_spec(s, w, m);
    let wmers = canon_wmers(s, w);
    let s2 = s.to_vec();
    let got = guarded(move || {
        let mut out = Vec::new();
        let mut g = KmerMinimiserGenerator::new(&s2, w, m);
        for _ in 0..s2.len() + 3 {
            match g.next() { Some(x) => out.push(x), None => break }
        }
        out
    });
    let why = match &got {
        Ok(g) => {
            let runs: Vec<(u64, usize, usize)> = g.iter().map(|x| (x.0, x.1, x.2)).collect();
            let cat: Vec<u64> = g.iter().flat_map(|x| x.3.iter().cloned()).collect();
            if runs != want { format!("runs {:?} differ from the plain iterator's spec {:?}", runs, want) }
            else if cat != wmers { format!("concatenated k-mer lists {:?} != canonical w-mers {:?}", cat, wmers) }
            else { String::new() }
        }
        Err(e) => format!("panic: {}", e),
    };
    if why.is_empty() { None } else {
        Some(vec![("seq".into(), show(s)), ("w".into(), w.to_string()), ("m".into(), m.to_string()), ("why".into(), why)])
    }
}

/// two iterators alive at the same time on one thread, pulled alternately: each must still hand out its own runs
fn pair_runs(kmin: bool, s1: &[u8], s2: &[u8], w: usize, m: usize) -> Option<Vec<(String, String)>> {
    let (a, b) = (s1.to_vec(), s2.to_vec());
    let got = guarded(move || {
        let mut o1: Vec<(u64, usize, usize)> = Vec::new();
        let mut o2: Vec<(u64, usize, usize)> = Vec::new();
        if kmin {
            let mut g1 = KmerMinimiserGenerator::new(&a, w, m);
            let mut g2 = KmerMinimiserGenerator::new(&b, w, m);
            for _ in 0..a.len() + b.len() + 6 {
                let x = g1.next(); let y = g2.next();
                if let Some(x) = &x { o1.push((x.0, x.1, x.2)); }
                if let Some(y) = &y { o2.push((y.0, y.1, y.2)); }
                if x.is_none() && y.is_none() { break; }
            }
        } else {
            let mut g1 = MinimiserGenerator::new(&a, w, m);
            let mut g2 = MinimiserGenerator::new(&b, w, m);
            for _ in 0..a.len() + b.len() + 6 {
                let x = g1.next(); let y = g2.next();
                if let Some(x) = x { o1.push(x); }
                if let Some(y) = y { o2.push(y); }
                if x.is_none() && y.is_none() { break; }
            }
        }
        (o1, o2)
    });
    let why = match got {
        Err(e) => format!("panic: {}", e),
        Ok((o1, o2)) => {
            if o1 != runs_spec(s1, w, m) { format!("first of two interleaved iterators: runs {:?}, expected {:?}", &o1[..o1.len().min(6)], &runs_spec(s1, w, m)[..runs_spec(s1, w, m).len().min(6)]) }
            else if o2 != runs_spec(s2, w, m) { format!("second of two interleaved iterators: runs {:?}, expected {:?}", &o2[..o2.len().min(6)], &runs_spec(s2, w, m)[..runs_spec(s2, w, m).len().min(6)]) }
            else { String::new() }
        }
    };
    if why.is_empty() { None } else {
        Some(vec![("seq".into(), show(s1)), ("seq2".into(), show(s2)), ("w".into(), w.to_string()), ("m".into(), m.to_string()), ("why".into(), why)])
    }
}

fn drive(o: &Opts, one: fn(&[u8], usize, usize) -> Option<Vec<(String, String)>>, wmax: usize) -> Outcome {
    let mut cases = 0u64;
    if let Some(inp) = &o.input {
        let s = unshow(&inp["seq"]);
        if inp.contains_key("via") {
            return Outcome { cases: 1, witness: crate::p_kmer::adaptors_min(wmax == 31, &s, inp["w"].parse().unwrap(), inp["m"].parse().unwrap()) };
        }
        if let Some(s2) = inp.get("seq2") {
            return Outcome { cases: 1, witness: pair_runs(wmax == 31, &s, &unshow(s2), inp["w"].parse().unwrap(), inp["m"].parse().unwrap()) };
        }
        return Outcome { cases: 1, witness: one(&s, inp["w"].parse().unwrap(), inp["m"].parse().unwrap()) };
    }
    {
        let mut rng = Rng(o.seed.wrapping_mul(0x2545F4914F6CDD1D) | 3);
        for _ in 0..300 {
            let m = 1 + rng.below(5) as usize;
            let w = (m + rng.below(6) as usize).min(wmax);
            let l = rng.below(60) as usize;
            let s = random_seq(&mut rng, l, 40);
            cases += 1;
            if let Some(wt) = crate::p_kmer::adaptors_min(wmax == 31, &s, w, m) { return Outcome { cases, witness: Some(wt) }; }
        }
    }
    {
        let mut rng = Rng(o.seed.wrapping_mul(0x2545F4914F6CDD1D) | 1);
        for _ in 0..300 {
            let m = 1 + rng.below(8) as usize;
            let w = (m + rng.below(10) as usize).min(wmax);
            let (l1, l2) = (rng.below(80) as usize, rng.below(80) as usize);
            let (s1, s2) = (random_seq(&mut rng, l1, 20), random_seq(&mut rng, l2, 20));
            cases += 2;
            if let Some(wt) = pair_runs(wmax == 31, &s1, &s2, w, m) { return Outcome { cases, witness: Some(wt) }; }
        }
    }
    let alpha = b"ACGTN";
    let maxlen = if o.thorough { 9 } else { 8 };
    for (w, m) in [(3usize, 2usize), (4, 2), (2, 2), (3, 1), (5, 3), (1, 1), (4, 4), (6, 2), (2, 1)] {
        let mut wit = None;
        for_all_strings(alpha, maxlen, &mut |s| {
            cases += 1;
            wit = one(s, w, m);
            wit.is_some()
        });
        if wit.is_some() { return Outcome { cases, witness: wit }; }
    }
    let mut rng = Rng(o.seed.wrapping_mul(0x9E3779B97F4A7C15) | 1);
    // long unambiguous stretches (beyond 2^8 and 2^16 bases: any narrow run counter would wrap)
    for (len, w, m) in [(300usize, 8usize, 5usize), (1000, 31, 7), (70_000, 12, 5), (66_000, 31, 31)] {
        let s = random_seq(&mut rng, len, 0);
        cases += 1;
        if let Some(mut wt) = one(&s, w.min(wmax), m.min(w.min(wmax))) {
            for kv in wt.iter_mut() { if kv.0 == "seq" { kv.1 = format!("<{} random unambiguous bases, seed {}>", len, o.seed); } }
            return Outcome { cases, witness: Some(wt) };
        }
    }
    let n = if o.thorough { 300_000 } else { 40_000 };
    for _ in 0..n {
        let m = 1 + rng.below(31) as usize;
        let extra = rng.below(60) as usize;
        let mut w = m + extra;
        if w > wmax { w = wmax; }
        let m = m.min(w);
        let lim = if rng.below(4) == 0 { 400 } else { 90 };
        let len = rng.below(lim) as usize;
        let amb = [0u64, 5, 30][rng.below(3) as usize];
        let mut s = random_seq(&mut rng, len, amb);
        if rng.below(3) == 0 {
            // low complexity: ties between equal minimisers
            let unit = [b"A".as_ref(), b"AT", b"ACG", b"AAC"][rng.below(4) as usize];
            for (i, b) in s.iter_mut().enumerate() { if clean(*b) { *b = unit[i % unit.len()]; } }
        }
        cases += 1;
        if let Some(wt) = one(&s, w, m) { return Outcome { cases, witness: Some(wt) }; }
    }
    Outcome { cases, witness: None }
}

pub fn c09(o: &Opts) -> Outcome { drive(o, c09_one, 1 << 20) }
pub fn c18(o: &Opts) -> Outcome { drive(o, c18_one, 31) }
