//! C03: the real kmer_pos_maps / header against the spec
use crate::spec::*;
use crate::util::*;
use crate::{Opts, Outcome};
use kmer::kmer::KmerGenerator;

// the inverse table (column -> code) whatever container the function returns it in (a map keyed by column or a dense vector)
trait ColTable { fn col(&self, i: usize) -> Option<u64>; fn ncols(&self) -> usize; }
impl ColTable for std::collections::HashMap<usize, u64> { fn col(&self, i: usize) -> Option<u64> { self.get(&i).copied() } fn ncols(&self) -> usize { self.len() } }
impl ColTable for std::collections::BTreeMap<usize, u64> { fn col(&self, i: usize) -> Option<u64> { self.get(&i).copied() } fn ncols(&self) -> usize { self.len() } }
impl ColTable for Vec<u64> { fn col(&self, i: usize) -> Option<u64> { self.get(i).copied() } fn ncols(&self) -> usize { self.len() } }

fn c03_k(k: usize) -> Option<Vec<(String, String)>> {
    let got = guarded(move || KmerGenerator::kmer_pos_maps(k));
    let (pm, pk, count) = match got {
        Ok(x) => x,
        Err(e) => return Some(vec![("k".into(), k.to_string()), ("why".into(), format!("panic: {}", e))]),
    };
    let n = pow4(k) as usize;
    let expect_count = if k % 2 == 0 { (pow4(k) + pow4(k / 2)) / 2 } else { pow4(k) / 2 } as usize;
    let mut why = String::new();
    if pm.len() != n { why = format!("pos_map has {} entries, expected {}", pm.len(), n); }
    let mut rank = 0usize;
    if why.is_empty() {
        for x in 0..n {
            if is_canon(x as u64, k) {
                if pm[x] != rank { why = format!("canonical code {} ({}) maps to {}, rank is {}", x, text_of(x as u64, k), pm[x], rank); break; }
                if pk.col(rank) != Some(x as u64) { why = format!("index {} maps to {:?}, expected code {}", rank, pk.col(rank), x); break; }
                rank += 1;
            } else if pm[x] != 0 { why = format!("non-canonical code {} has entry {}", x, pm[x]); break; }
        }
    }
    if why.is_empty() && (count != rank || pk.ncols() != rank) { why = format!("count {} / map size {} but {} canonical k-mers", count, pk.ncols(), rank); }
    if why.is_empty() && count != expect_count { why = format!("count {} differs from the closed form {}", count, expect_count); }
    if why.is_empty() { None } else { Some(vec![("k".into(), k.to_string()), ("why".into(), why)]) }
}

fn header_k(k: usize, delim: &str) -> Option<Vec<(String, String)>> {
    for (norm, nrec, threads) in [(true, 1usize, 1usize), (false, 1, 1), (true, 0, 2), (false, 0, 2), (true, 3, 4), (false, 3, 4)] {
        if let Some(mut w) = header_k_cfg(k, delim, norm, nrec, threads) {
            w.push(("norm".into(), norm.to_string())); w.push(("records".into(), nrec.to_string())); w.push(("threads".into(), threads.to_string()));
            return Some(w);
        }
    }
    None
}

fn header_k_cfg(k: usize, delim: &str, norm: bool, nrec: usize, threads: usize) -> Option<Vec<(String, String)>> {
    // through the public file API: header line of the composition output (both writers: normalised = mapped, counts = batched)
    let sc = Scratch::new("c03");
    let inp = sc.path("in.fa");
    let out = sc.path("out.txt");
    let recs: Vec<Vec<u8>> = (0..nrec).map(|i| format!("ACGTACGTTGCAACGT{}", "AC".repeat(i)).into_bytes()).collect();
    write_fasta(&inp, &recs);
    let d = delim.to_string();
    let (i2, o2) = (inp.clone(), out.clone());
    let r = guarded(move || {
        let mut c = composition::oligo::OligoComputer::new(i2, o2, k);
        c.set_header(true);
        c.set_norm(norm);
        c.set_delim(d);
        c.set_threads(threads);
        c.vectorise()
    });
    let mut want: Vec<String> = Vec::new();
    for x in 0..pow4(k) { if is_canon(x, k) { want.push(text_of(x, k)); } }
    let why = match r {
        Ok(Ok(())) => {
            let text = std::fs::read_to_string(&out).unwrap_or_default();
            let first = text.split('\n').next().unwrap_or("").to_string();
            if first != want.join(delim) { format!("header line {:?} differs from the canonical k-mers in column order", &first[..first.len().min(80)]) }
            else if text.matches('\n').count() != nrec + 1 || text.contains('\0') { format!("with the header the output has {} lines for {} records (or holds unwritten bytes)", text.matches('\n').count(), nrec) }
            else { String::new() }
        }
        Ok(Err(e)) => format!("error: {}", e),
        Err(e) => format!("panic: {}", e),
    };
    if why.is_empty() { None } else { Some(vec![("k".into(), k.to_string()), ("delim".into(), delim.to_string()), ("why".into(), why)]) }
}

pub fn c03(o: &Opts) -> Outcome {
    let mut cases = 0;
    if let Some(inp) = &o.input {
        let k: usize = inp["k"].parse().unwrap();
        if let Some(d) = inp.get("delim") { return Outcome { cases: 1, witness: header_k(k, d) }; }
        return Outcome { cases: 1, witness: c03_k(k) };
    }
    let kmax = if o.thorough { 10 } else { 8 };
    for k in 1..=kmax {
        cases += 1;
        if let Some(w) = c03_k(k) { return Outcome { cases, witness: Some(w) }; }
    }
    for k in 1..=6 {
        for d in [",", "\t", " "] {
            cases += 1;
            if let Some(w) = header_k(k, d) { return Outcome { cases, witness: Some(w) }; }
        }
    }
    // columns really are the ranks, also for k beyond the CLI range: a k-mer with a high rank lands in its own column
    for k in [8usize, 9, 10] {
        let tail: Vec<u8> = std::iter::repeat(b'T').take(k / 2).chain(std::iter::repeat(b'A').take(k - k / 2)).collect();
        let recs = vec![tail.clone(), [b"GGGTTTCCCAAAGGGTTT".to_vec(), tail].concat()];
        cases += 1;
        let out = crate::p_rows::run_oligo(&recs, k, false, 2, " ", false, None);
        let why = match out {
            Err(e) => e,
            Ok(text) => {
                let lines: Vec<&str> = text.split('\n').collect();
                let mut w = String::new();
                for (i, r) in recs.iter().enumerate() {
                    if i >= lines.len() { w = "missing row".into(); break; }
                    if let Err(e) = crate::p_rows::row_matches(lines[i], r, k, false, " ") { w = format!("row {}: {}", i, e); break; }
                }
                w
            }
        };
        if !why.is_empty() { return Outcome { cases, witness: Some(vec![("k".into(), k.to_string()), ("why".into(), why)]) }; }
    }
    Outcome { cases, witness: None }
}
