//! C06: the reader (ktio) on FASTA / FASTQ / gzip (single and multi member) against the records written
use crate::spec::*;
use crate::util::*;
use crate::{Opts, Outcome};
use std::io::Write;

fn gz(data: &[u8]) -> Vec<u8> {
    let mut e = flate2::write::GzEncoder::new(Vec::new(), flate2::Compression::default());
    e.write_all(data).unwrap();
    e.finish().unwrap()
}

fn fasta_bytes(recs: &[(String, Vec<u8>)], wrap: usize, crlf: bool) -> Vec<u8> {
    let nl: &[u8] = if crlf { b"\r\n" } else { b"\n" };
    let mut s = Vec::new();
    for (id, seq) in recs {
        s.push(b'>'); s.extend_from_slice(id.as_bytes()); s.extend_from_slice(b" some description"); s.extend_from_slice(nl);
        if wrap == 0 { s.extend_from_slice(seq); s.extend_from_slice(nl); }
        else { for ch in seq.chunks(wrap) { s.extend_from_slice(ch); s.extend_from_slice(nl); } }
    }
    s
}
fn fastq_bytes(recs: &[(String, Vec<u8>)]) -> Vec<u8> {
    let mut s = Vec::new();
    for (id, seq) in recs {
        // Illumina / SRA style header: the id is the first word, a description follows
        s.push(b'@'); s.extend_from_slice(id.as_bytes()); s.extend_from_slice(b" 1:N:0:ACGT length=7\n");
        s.extend_from_slice(seq); s.extend_from_slice(b"\n+\n");
        // legal Phred+33 quality characters include '@' (Q31) and '+' (Q10), also as the first character of the line
        // ... and so do ';' (Q26), '>' (Q29) and '#' (Q2)
        for i in 0..seq.len() { s.push(b"@I+5;>#"[(i + seq.len()) % 7]); }
        s.push(b'\n');
    }
    s
}

fn read_all(path: &str) -> Result<Vec<(usize, String, Vec<u8>)>, String> {
    let p = path.to_string();
    guarded(move || {
        let format = ktio::seq::SeqFormat::get(&p).unwrap();
        let reader = ktio::seq::get_reader(&p).unwrap();
        let recs = ktio::seq::Sequences::new(format, reader).unwrap();
        recs.map(|r| (r.n, r.id, r.seq)).collect::<Vec<_>>()
    })
}
fn stats(path: &str) -> Result<(usize, usize), String> {
    let p = path.to_string();
    guarded(move || {
        let format = ktio::seq::SeqFormat::get(&p).unwrap();
        let reader = ktio::seq::get_reader(&p).unwrap();
        let s = ktio::seq::Sequences::seq_stats(format, reader);
        (s.seq_count, s.total_length)
    })
}

fn check_file(path: &str, recs: &[(String, Vec<u8>)], what: &str) -> Option<Vec<(String, String)>> {
    let why = match (read_all(path), stats(path)) {
        (Ok(got), Ok(st)) => {
            let want: Vec<(usize, String, Vec<u8>)> = recs.iter().enumerate().map(|(i, (id, s))| (i, id.clone(), s.clone())).collect();
            if got != want { format!("{} records read, {} written; first difference at {:?}", got.len(), want.len(), got.iter().zip(want.iter()).position(|(a, b)| a != b)) }
            else if st != (recs.len(), recs.iter().map(|r| r.1.len()).sum::<usize>()) { format!("statistics {:?} differ from iteration", st) }
            else { String::new() }
        }
        (Err(e), _) | (_, Err(e)) => format!("panic: {}", e),
    };
    if why.is_empty() { None } else {
        Some(vec![("container".into(), what.to_string()), ("records".into(), recs.iter().map(|r| show(&r.1)).collect::<Vec<_>>().join("|")), ("why".into(), why)])
    }
}

fn one(recs: &[(String, Vec<u8>)], container: &str) -> Option<Vec<(String, String)>> {
    let sc = Scratch::new("reader");
    let parts: Vec<&str> = container.split(':').collect();
    let (path, bytes): (String, Vec<u8>) = match parts[0] {
        "fa" => (sc.path("GCF_000005845.2_ASM584v2_genomic.fa"), fasta_bytes(recs, 0, false)),
        "fa-wrap" => (sc.path("x.fasta"), fasta_bytes(recs, parts[1].parse().unwrap(), false)),
        "fa-crlf" => (sc.path("assembly.v2.fna"), fasta_bytes(recs, 0, true)),
        "fq" => (sc.path("x.fq"), fastq_bytes(recs)),
        "fa-gz" => (sc.path("x.fa.gz"), gz(&fasta_bytes(recs, 0, false))),
        "fq-gz" => (sc.path("sample.R1.fastq.gz"), gz(&fastq_bytes(recs))),
        "fa-gz-multi" => {
            // one gzip member per `split` records, concatenated (bgzip / cat a.gz b.gz)
            let split: usize = parts[1].parse().unwrap();
            let mut b = Vec::new();
            for ch in recs.chunks(split.max(1)) { b.extend(gz(&fasta_bytes(ch, 0, false))); }
            (sc.path("x.fa.gz"), b)
        }
        _ => return None,
    };
    std::fs::write(&path, bytes).unwrap();
    check_file(&path, recs, container)
}

pub fn c06(o: &Opts) -> Outcome {
    let mut cases = 0u64;
    if let Some(inp) = &o.input {
        let recs: Vec<(String, Vec<u8>)> = inp["records"].split('|').enumerate().map(|(i, r)| (format!("r{}", i), unshow(r))).collect();
        return Outcome { cases: 1, witness: one(&recs, &inp["container"]) };
    }
    // a CRLF FASTA larger than any read buffer, with the line terminators sweeping over every alignment mod 64
    for pad in 0..64usize {
        let recs: Vec<(String, Vec<u8>)> = (0..3).map(|i| (format!("r{}{}", i, "x".repeat(if i == 0 { pad } else { 3 })), (0..6000).map(|j| b"ACGT"[(i + j) % 4]).collect())).collect();
        let sc = Scratch::new("reader");
        let path = sc.path("big.fa");
        std::fs::write(&path, fasta_bytes(&recs, 61, true)).unwrap();
        cases += 1;
        if let Some(w) = check_file(&path, &recs, &format!("fa-crlf-wrap61-pad{}", pad)) { return Outcome { cases, witness: Some(w) }; }
    }
    // gzip members of length zero between real members (bgzip EOF blocks in concatenated files), FASTQ and FASTA
    {
        let recs: Vec<(String, Vec<u8>)> = (0..4).map(|i| (format!("q{}", i), (0..50 + i).map(|j| b"ACGT"[(i + j) % 4]).collect())).collect();
        for (fq, bgzf) in [(true, false), (false, false), (true, true), (false, true)] {
            let sc = Scratch::new("reader");
            let path = sc.path(if fq { "cat.fq.gz" } else { "cat.fa.gz" });
            let mut b = Vec::new();
            let ser = |r: &[(String, Vec<u8>)]| if fq { fastq_bytes(r) } else { fasta_bytes(r, 0, false) };
            // ordinary members, or genuine bgzip blocks (extra field with the block size): `cat a.gz b.gz` of two bgzip outputs
            let z = |d: &[u8]| if bgzf { bgzf_bytes(d) } else { gz(d) };
            b.extend(z(&ser(&recs[..2]))); b.extend(z(b"")); b.extend(z(&ser(&recs[2..]))); b.extend(z(b""));
            std::fs::write(&path, b).unwrap();
            cases += 1;
            let what = format!("{}-gz with empty members{}", if fq { "fq" } else { "fa" }, if bgzf { " (bgzip blocks)" } else { "" });
            if let Some(w) = check_file(&path, &recs, &what) { return Outcome { cases, witness: Some(w) }; }
        }
    }
    // every documented file-name suffix, plain and gzipped, in directories whose names look like other suffixes
    {
        let recs: Vec<(String, Vec<u8>)> = (0..3).map(|i| (format!("s{}", i), (0..12 + i).map(|j| b"ACGT"[(i + j) % 4]).collect())).collect();
        for (suffix, fq) in [("fa", false), ("fasta", false), ("fna", false), ("fq", true), ("fastq", true)] {
            for gzipped in [false, true] {
                for dir in ["plain", "dir.fq", "dir.fa.gz"] {
                    let sc = Scratch::new("reader");
                    std::fs::create_dir_all(sc.path(dir)).unwrap();
                    let path = sc.path(&format!("{}/genome.v1.{}{}", dir, suffix, if gzipped { ".gz" } else { "" }));
                    let bytes = if fq { fastq_bytes(&recs) } else { fasta_bytes(&recs, 0, false) };
                    std::fs::write(&path, if gzipped { gz(&bytes) } else { bytes }).unwrap();
                    cases += 1;
                    let p2 = path.clone();
                    let fmt = guarded(move || ktio::seq::SeqFormat::get(&p2).map(|f| matches!(f, ktio::seq::SeqFormat::Fastq)));
                    if fmt != Ok(Some(fq)) {
                        return Outcome { cases, witness: Some(vec![("container".into(), format!("file name {}/genome.v1.{}{}", dir, suffix, if gzipped { ".gz" } else { "" })), ("records".into(), recs.iter().map(|r| show(&r.1)).collect::<Vec<_>>().join("|")), ("why".into(), format!("format inferred from the name: {:?} (Some(true) = FASTQ), expected {}", fmt, if fq { "FASTQ" } else { "FASTA" }))]) };
                    }
                    if let Some(w) = check_file(&path, &recs, &format!("file name genome.v1.{}{}", suffix, if gzipped { ".gz" } else { "" })) { return Outcome { cases, witness: Some(w) }; }
                }
            }
        }
        // names that are not sequence files are refused (no format)
        for name in ["reads.txt", "reads.fa.bz2", "reads", "fa", "reads.fagz", "reads.gz"] {
            cases += 1;
            let n2 = name.to_string();
            let fmt = guarded(move || ktio::seq::SeqFormat::get(&n2).is_some());
            if fmt != Ok(false) { return Outcome { cases, witness: Some(vec![("container".into(), format!("file name {}", name)), ("records".into(), String::new()), ("why".into(), format!("a name without a sequence suffix got a format ({:?})", fmt))]) }; }
        }
    }
    // inputs without any record: a zero-byte file, a gzip file with an empty payload, a file holding one newline
    for (name, bytes) in [("empty.fa", Vec::new()), ("empty.fq", Vec::new()), ("empty.fa.gz", gz(b"")), ("empty.fastq.gz", gz(b""))] {
        let sc = Scratch::new("reader");
        let path = sc.path(name);
        std::fs::write(&path, bytes).unwrap();
        cases += 1;
        let none: Vec<(String, Vec<u8>)> = Vec::new();
        if let Some(w) = check_file(&path, &none, &format!("{} (no records)", name)) { return Outcome { cases, witness: Some(w) }; }
    }
    // the record iterator driven through skip / nth / step_by: ordinals stay the positions in the file
    {
        let recs: Vec<(String, Vec<u8>)> = (0..9).map(|i| (format!("r{}", i), (0..10 + i).map(|j| b"ACGT"[(i + j) % 4]).collect())).collect();
        let sc = Scratch::new("reader");
        let path = sc.path("skip.fa");
        std::fs::write(&path, fasta_bytes(&recs, 0, false)).unwrap();
        cases += 1;
        let p = path.clone();
        let got = guarded(move || {
            let open = || { let f = ktio::seq::SeqFormat::get(&p).unwrap(); ktio::seq::Sequences::new(f, ktio::seq::get_reader(&p).unwrap()).unwrap() };
            let a: Vec<(usize, String)> = open().skip(3).map(|r| (r.n, r.id)).collect();
            let b: Vec<(usize, String)> = open().step_by(2).map(|r| (r.n, r.id)).collect();
            let mut it = open();
            let c = it.nth(4).map(|r| (r.n, r.id));
            let d = it.next().map(|r| (r.n, r.id));
            (a, b, c, d)
        });
        let want_all: Vec<(usize, String)> = (0..9).map(|i| (i, format!("r{}", i))).collect();
        let bad = match &got {
            Err(_) => true,
            Ok((a, b, c, d)) => *a != want_all[3..].to_vec() || *b != want_all.iter().step_by(2).cloned().collect::<Vec<_>>() || *c != Some(want_all[4].clone()) || *d != Some(want_all[5].clone()),
        };
        if bad { return Outcome { cases, witness: Some(vec![("container".into(), "fa, iterator driven through skip(3) / step_by(2) / nth(4)".into()), ("records".into(), recs.iter().map(|r| show(&r.1)).collect::<Vec<_>>().join("|")), ("why".into(), format!("ordinals or ids differ from the positions in the file: {:?}", got))]) }; }
    }
    // identifiers with the shapes real data has (mate suffixes, pipes, colons, dots, version numbers): delivered unchanged in every container
    {
        let ids = ["read7/1", "read7/2", "chr1/1", "gi|12345|ref|NC_000913.3|", "M01234:55:000000000-A1B2C:1:1101:15589:1332", "contig.00012", "a/1/2", "x_y-z", "SRR1.1/1", "7"];
        let recs: Vec<(String, Vec<u8>)> = ids.iter().enumerate().map(|(i, id)| (id.to_string(), (0..15 + i).map(|j| b"ACGT"[(i + j) % 4]).collect())).collect();
        for (name, bytes) in [("ids.fa", fasta_bytes(&recs, 0, false)), ("ids.fq", fastq_bytes(&recs)), ("ids.fq.gz", gz(&fastq_bytes(&recs))), ("ids.fasta", fasta_bytes(&recs, 9, true))] {
            let sc = Scratch::new("reader");
            let path = sc.path(name);
            std::fs::write(&path, bytes).unwrap();
            cases += 1;
            if let Some(w) = check_file(&path, &recs, &format!("{} with mate-suffixed / piped / dotted identifiers", name)) { return Outcome { cases, witness: Some(w) }; }
        }
    }
    // FASTQ records whose quality line starts with each of the characters that start other kinds of lines
    {
        let recs: Vec<(String, Vec<u8>)> = (0..14).map(|i| (format!("q{}", i), (0..20 + i).map(|j| b"ACGT"[(i + j) % 4]).collect())).collect();
        let sc = Scratch::new("reader");
        let path = sc.path("qual.fq");
        std::fs::write(&path, fastq_bytes(&recs)).unwrap();
        cases += 1;
        if let Some(w) = check_file(&path, &recs, "fq with quality lines starting with @ + ; > #") { return Outcome { cases, witness: Some(w) }; }
    }
    // the same path read, rewritten with other records of the same size (same compressed size too), and read again in one process
    for gzipped in [true, false] {
        let sc = Scratch::new("reader");
        let path = sc.path(if gzipped { "again.fa.gz" } else { "again.fa" });
        for round in 0..3usize {
            let recs: Vec<(String, Vec<u8>)> = (0..5).map(|i| (format!("r{}", (i + round) % 10), (0..40 + i).map(|j| b"ACGT"[(i + j + round) % 4]).collect())).collect();
            let bytes = fasta_bytes(&recs, 0, false);
            if gzipped {
                let mut e = flate2::write::GzEncoder::new(Vec::new(), flate2::Compression::none());
                e.write_all(&bytes).unwrap();
                std::fs::write(&path, e.finish().unwrap()).unwrap();
            } else { std::fs::write(&path, bytes).unwrap(); }
            cases += 1;
            if let Some(w) = check_file(&path, &recs, &format!("{} rewritten in place with different records of the same size, read {}", if gzipped { "fa-gz" } else { "fa" }, round + 1)) { return Outcome { cases, witness: Some(w) }; }
        }
    }
    let mut rng = Rng(o.seed.wrapping_mul(0x9E3779B97F4A7C15) | 1);
    for round in 0..(if o.thorough { 200 } else { 30 }) {
        let n = 1 + rng.below(6) as usize;
        let recs: Vec<(String, Vec<u8>)> = (0..n).map(|i| {
            let l = if round % 5 == 0 && i == 1 { 0 } else { 1 + rng.below(300) as usize };
            (format!("id{}_{}", round, i), random_seq(&mut rng, l, 10).iter().map(|&b| if b < 0x21 || b > 0x7e || b == b'>' || b == b'@' || b == b'+' { b'N' } else { b }).collect())
        }).collect();
        let has_empty = recs.iter().any(|r| r.1.is_empty());
        let mut containers = vec!["fa".to_string(), "fa-wrap:7".into(), "fa-wrap:60".into(), "fa-crlf".into(), "fa-gz".into(), "fa-gz-multi:1".into(), "fa-gz-multi:2".into()];
        if !has_empty { containers.push("fq".into()); containers.push("fq-gz".into()); }
        for c in containers {
            cases += 1;
            if let Some(w) = one(&recs, &c) { return Outcome { cases, witness: Some(w) }; }
        }
    }
    Outcome { cases, witness: None }
}
