//! C04 (and helpers for C05/C12/C14): oligo rows through the public file API against the spec
use crate::spec::*;
use crate::util::*;
use crate::{Opts, Outcome};

/// expected raw counts per canonical column
pub fn counts_spec(s: &[u8], k: usize) -> (Vec<u64>, u64) {
    let mut cols: Vec<u64> = Vec::new();
    for x in 0..pow4(k) { if is_canon(x, k) { cols.push(x); } }
    let mut v = vec![0u64; cols.len()];
    let mut total = 0u64;
    for (_, f, r) in kmers_spec(s, k) {
        let c = f.min(r);
        let i = cols.binary_search(&c).unwrap();
        v[i] += 1;
        total += 1;
    }
    (v, total)
}

pub fn run_oligo(recs: &[Vec<u8>], k: usize, norm: bool, threads: usize, delim: &str, header: bool, memory: Option<usize>) -> Result<String, String> {
    run_oligo_in(recs, k, norm, threads, delim, header, memory, "fa")
}

/// container: fa | fa-wrap | fq | fa-gz | fq-gz
pub fn run_oligo_in(recs: &[Vec<u8>], k: usize, norm: bool, threads: usize, delim: &str, header: bool, memory: Option<usize>, container: &str) -> Result<String, String> {
    use std::io::Write;
    let sc = Scratch::new("oligo");
    let out = sc.path("out.txt");
    let mut bytes: Vec<u8> = Vec::new();
    let fq = container.starts_with("fq");
    for (i, r) in recs.iter().enumerate() {
        if fq {
            bytes.extend_from_slice(format!("@{}\n", rec_id(i)).as_bytes()); bytes.extend_from_slice(r); bytes.extend_from_slice(b"\n+\n");
            for j in 0..r.len() { bytes.push(b"@I+5@"[(j + r.len()) % 5]); }
            bytes.push(b'\n');
        } else {
            bytes.extend_from_slice(format!(">{}\n", rec_id(i)).as_bytes());
            if container == "fa-wrap" { for ch in r.chunks(7) { bytes.extend_from_slice(ch); bytes.push(b'\n'); } } else { bytes.extend_from_slice(r); bytes.push(b'\n'); }
        }
    }
    let gz = container.ends_with("-gz") || container.ends_with("-gzm");
    let inp = sc.path(&format!("in.{}{}", if fq { "fq" } else { "fa" }, if gz { ".gz" } else { "" }));
    if container.ends_with("-gzm") {
        // multi-member gzip: the byte stream cut at a record boundary near the middle, each half its own member
        let mut cut = bytes.len() / 2;
        while cut < bytes.len() && !(bytes[cut] == b'>' && bytes[cut - 1] == b'\n') { cut += 1; }
        let mut outb = Vec::new();
        for part in [&bytes[..cut], &bytes[cut..]] {
            if part.is_empty() { continue; }
            let mut e = flate2::write::GzEncoder::new(Vec::new(), flate2::Compression::default());
            e.write_all(part).unwrap();
            outb.extend(e.finish().unwrap());
        }
        bytes = outb;
    } else if gz {
        let mut e = flate2::write::GzEncoder::new(Vec::new(), flate2::Compression::default());
        e.write_all(&bytes).unwrap();
        bytes = e.finish().unwrap();
    }
    std::fs::write(&inp, bytes).unwrap();
    if std::env::var("VERIF_STALE_OUTPUT").is_ok() {
        let junk: String = (0..40).map(|_| "0.123456 0.123456 0.123456 0.123456 0.123456 0.123456 0.123456 0.123456 0.123456 0.123456 0.5\n").collect();
        std::fs::write(&out, junk).unwrap();
    }
    let d = delim.to_string();
    let (i2, o2) = (inp.clone(), out.clone());
    let r = guarded(move || {
        let mut c = composition::oligo::OligoComputer::new(i2, o2, k);
        c.set_norm(norm);
        c.set_delim(d);
        c.set_threads(threads);
        c.set_header(header);
        if let Some(m) = memory { c.set_max_memory(m); }
        c.vectorise()
    });
    match r {
        Ok(Ok(())) => std::fs::read_to_string(&out).map_err(|e| format!("cannot read output: {}", e)),
        Ok(Err(e)) => Err(format!("error: {}", e)),
        Err(e) => Err(format!("panic: {}", e)),
    }
}

pub fn row_matches(line: &str, s: &[u8], k: usize, norm: bool, delim: &str) -> Result<(), String> {
    let (cnt, total) = counts_spec(s, k);
    let parts: Vec<&str> = if delim.is_empty() {
        // no delimiter: normalised values are fixed-width (8 bytes)
        if norm && line.len() % 8 == 0 { (0..line.len() / 8).map(|i| &line[i * 8..i * 8 + 8]).collect() } else { vec![line] }
    } else { line.split(delim).collect() };
    if parts.len() != cnt.len() { return Err(format!("row has {} values, expected {}", parts.len(), cnt.len())); }
    for (i, p) in parts.iter().enumerate() {
        let v: f64 = p.parse().map_err(|_| format!("value {:?} is not a number", p))?;
        let want = if norm { cnt[i] as f64 / (total.max(1) as f64) } else { cnt[i] as f64 };
        let tol = if norm { 5.1e-7 } else { 0.0 };
        if !((v - want).abs() <= tol) { return Err(format!("column {}: got {}, expected {}", i, v, want)); }
    }
    Ok(())
}

fn c04_batch(recs: &[Vec<u8>], k: usize, norm: bool) -> Option<Vec<(String, String)>> { c04_batch_cfg(recs, k, norm, 2, None) }

/// rows of a batch of records for a given worker count and memory ceiling (bytes; None = default)
fn c04_batch_cfg(recs: &[Vec<u8>], k: usize, norm: bool, threads: usize, memory: Option<usize>) -> Option<Vec<(String, String)>> {
    c04_batch_delim(recs, k, norm, threads, memory, " ")
}
/// the same with a given delimiter: one value per canonical column whatever string separates them, on both writers
fn c04_batch_delim(recs: &[Vec<u8>], k: usize, norm: bool, threads: usize, memory: Option<usize>, delim: &str) -> Option<Vec<(String, String)>> {
    let out = run_oligo(recs, k, norm, threads, delim, false, memory);
    let why = match out {
        Err(e) => Some((0usize, e)),
        Ok(text) => {
            let lines: Vec<&str> = text.split('\n').collect();
            let mut w = None;
            if lines.len() != recs.len() + 1 || !lines[recs.len()].is_empty() {
                w = Some((0, format!("{} lines for {} records", lines.len() - 1, recs.len())));
            } else {
                for (i, r) in recs.iter().enumerate() {
                    if let Err(e) = row_matches(lines[i], r, k, norm, delim) { w = Some((i, e)); break; }
                    // invariances: reverse complement, case, U for T
                    let _ = r;
                }
            }
            w
        }
    };
    why.map(|(i, e)| {
        let mut v = vec![("seq".into(), show(&recs[i.min(recs.len() - 1)])), ("k".into(), k.to_string()), ("norm".into(), norm.to_string()), ("why".into(), e)];
        if delim != " " { v.push(("delim".into(), delim.to_string())); }
        if threads != 2 || memory.is_some() || delim != " " {
            v.push(("records".into(), recs.iter().map(|r| show(r)).collect::<Vec<_>>().join("|")));
            v.push(("threads".into(), threads.to_string()));
            v.push(("memory".into(), memory.map(|m| m.to_string()).unwrap_or_default()));
        }
        v
    })
}

pub fn c04(o: &Opts) -> Outcome {
    let mut cases = 0u64;
    if let Some(inp) = &o.input {
        let s = unshow(&inp["seq"]);
        let k: usize = inp["k"].parse().unwrap();
        let norm = inp["norm"] == "true";
        if let Some(t) = inp.get("threads") {
            let recs: Vec<Vec<u8>> = inp["records"].split('|').map(unshow).collect();
            let delim = inp.get("delim").map(|d| d.as_str()).unwrap_or(" ");
            return Outcome { cases: 1, witness: c04_batch_delim(&recs, k, norm, t.parse().unwrap(), inp["memory"].parse().ok(), delim) };
        }
        return Outcome { cases: 1, witness: c04_batch(&[s], k, norm) };
    }
    // records without bases at the end of the input and as the whole input, on both writers and with a ceiling that flushes every record
    for recs in [vec![b"ACGTACGT".to_vec(), vec![], vec![]], vec![vec![], vec![]], vec![vec![], b"ACGGT".to_vec(), vec![]]] {
        for norm in [false, true] {
            for memory in [None, Some(1usize)] {
                cases += recs.len() as u64;
                if let Some(w) = c04_batch_cfg(&recs, 3, norm, 3, memory) { return Outcome { cases, witness: Some(w) }; }
            }
        }
    }
    // one worker and many workers; a memory ceiling that splits the records into several batches (one record per batch and
    // a few records per batch); blanks and tabs inside a record (they are bytes like any other non-nucleotide byte)
    {
        let recs: Vec<Vec<u8>> = vec![b"ACGTACGTTGCA".to_vec(), b"ACG TAC".to_vec(), b"AC\tGTACGGT".to_vec(), b"GGGTTTAAACCC".to_vec(), b"AC".to_vec(), b"TTGACCAGTAGGCAT".to_vec(), b"ACGNTAC".to_vec(), b"CCCCCCCCC".to_vec()];
        for norm in [false, true] {
            for threads in [1usize, 16] {
                for memory in [None, Some(1usize), Some(20), Some(30)] {
                    cases += recs.len() as u64;
                    if let Some(w) = c04_batch_cfg(&recs, 3, norm, threads, memory) { return Outcome { cases, witness: Some(w) }; }
                }
            }
        }
    }
    // the delimiter presets (and a longer string) on both writers: a row is one value per canonical column
    {
        let recs: Vec<Vec<u8>> = vec![b"ACGTACGTTGCA".to_vec(), b"GGGTTTAAACCC".to_vec(), b"AC".to_vec(), b"ACGNTAC".to_vec()];
        for delim in [",", "\t", ";;"] {
            for norm in [false, true] {
                for threads in [1usize, 4] {
                    cases += recs.len() as u64;
                    if let Some(w) = c04_batch_delim(&recs, 3, norm, threads, None, delim) { return Outcome { cases, witness: Some(w) }; }
                }
            }
        }
    }
    // exhaustive small strings in batches of one file per (k, norm)
    let alpha = b"ACGTNu";
    for k in 1..=3usize {
        for norm in [false, true] {
            let mut recs: Vec<Vec<u8>> = Vec::new();
            for_all_strings(alpha, if o.thorough { 6 } else { 5 }, &mut |s| { if !s.is_empty() { recs.push(s.to_vec()); } false });
            cases += recs.len() as u64;
            // narrow down to the first failing record
            if let Some(w) = c04_batch(&recs, k, norm) { return Outcome { cases, witness: Some(w) }; }
        }
    }
    let mut rng = Rng(o.seed.wrapping_mul(0x9E3779B97F4A7C15) | 1);
    // long records (beyond any internal chunk size): 70000 x A, 65536 x A + CCC, a long random record
    {
        let mut long = vec![vec![b'A'; 70_000], [vec![b'A'; 65_536], b"CCC".to_vec()].concat(), random_seq(&mut rng, 140_000, 2).iter().map(|&b| if b < 0x21 || b > 0x7e || b == b'>' { b'N' } else { b }).collect::<Vec<u8>>()];
        long.push(vec![b'C'; 131_075]);
        for norm in [false, true] {
            cases += long.len() as u64;
            if let Some(mut w) = c04_batch(&long, 3, norm) {
                for kv in w.iter_mut() { if kv.0 == "seq" && kv.1.len() > 200 { kv.1 = format!("{}... ({} bytes)", &kv.1[..60], kv.1.len()); } }
                return Outcome { cases, witness: Some(w) };
            }
        }
    }
    {
        // a single k-mer more than 2^24 times in one record (exactness of the accumulated counts at scale)
        let big = vec![vec![b'A'; 17_000_000], b"ACGTAC".to_vec()];
        for norm in [false, true] {
            cases += 2;
            if let Some(mut w) = c04_batch(&big, 3, norm) {
                for kv in w.iter_mut() { if kv.0 == "seq" && kv.1.len() > 200 { kv.1 = format!("{}... ({} bytes)", &kv.1[..60], kv.1.len()); } }
                return Outcome { cases, witness: Some(w) };
            }
        }
    }
    // every ratio a/(a+b) with small a, b on both writers: a value rendered from a narrower float type differs in the sixth decimal
    {
        let mut recs: Vec<Vec<u8>> = Vec::new();
        for a in 1..=40usize { for b in [1usize, 2, 3, 7, 11, 29] { let mut r = vec![b'A'; a + 2]; r.push(b'N'); r.extend(vec![b'C'; b + 2]); recs.push(r); } }
        // exact ties at the seventh decimal: a/128 and a/64 for odd a (0.0078125, 0.0234375, ...)
        for total in [128usize, 64, 640] { for a in [1usize, 3, 5, 7, 9, 11, 13, 21, 33, 63] { let b = total - a; let mut r = vec![b'A'; a + 2]; r.push(b'N'); r.extend(vec![b'C'; b + 2]); recs.push(r); } }
        cases += 2 * recs.len() as u64;
        if let Some(w) = stdin_batch(&recs, 3, true) { return Outcome { cases, witness: Some(w) }; }
        if let Some(w) = c04_batch_cfg(&recs, 3, true, 4, None) { return Outcome { cases, witness: Some(w) }; }
    }
    // the batched writer in normalised mode is only reachable with streamed input ("-"): drive it through a child process
    {
        let recs: Vec<Vec<u8>> = vec![b"ACGTACGTTGCA".to_vec(), b"AC".to_vec(), b"NNNNNNNN".to_vec(), b"ACNACNAC".to_vec(), b"TTTTTTT".to_vec()];
        for norm in [true, false] {
            cases += recs.len() as u64;
            if let Some(w) = stdin_batch(&recs, 3, norm) { return Outcome { cases, witness: Some(w) }; }
        }
    }
    for round in 0..(if o.thorough { 40 } else { 8 }) {
        let k = 1 + (round % 8) as usize;
        let mut recs = Vec::new();
        for _ in 0..200 {
            let len = 1 + rng.below(300) as usize;
            let amb = [0u64, 10, 100][rng.below(3) as usize];
            let s = random_seq(&mut rng, len, amb);
            // the rc / lowercase / U variants must give the same row: add them as records too
            recs.push(rc_text(&s));
            recs.push(s.iter().map(|b| b.to_ascii_lowercase()).collect());
            recs.push(s.iter().map(|&b| if b == b'T' { b'U' } else { b }).collect());
            recs.push(s);
        }
        // FASTA parsing would split on '>' / newlines inside a record: keep only printable non-'>' bytes
        for r in recs.iter_mut() { for b in r.iter_mut() { if *b == b'>' || *b == b'\n' || *b == b'\r' || *b < 0x21 || *b > 0x7e { *b = b'N'; } } }
        for norm in [false, true] {
            cases += recs.len() as u64;
            if let Some(w) = c04_batch(&recs, k, norm) { return Outcome { cases, witness: Some(w) }; }
        }
    }
    Outcome { cases, witness: None }
}

/// C14 (mmap path): file size == header + records x row length, every row is the record's row, no byte unwritten
fn c14_one(recs: &[Vec<u8>], k: usize, delim: &str, header: bool, threads: usize) -> Option<Vec<(String, String)>> {
    let out = run_oligo(recs, k, true, threads, delim, header, None);
    let why = match out {
        Err(e) => e,
        Ok(text) => {
            let kcount = (0..pow4(k)).filter(|&x| is_canon(x, k)).count();
            let row_len = kcount * 8 + (kcount - 1) * delim.len() + 1;
            let mut body = text.as_str();
            let mut hdr_len = 0;
            if header {
                let want: Vec<String> = (0..pow4(k)).filter(|&x| is_canon(x, k)).map(|x| text_of(x, k)).collect();
                let h = want.join(delim) + "\n";
                if !text.starts_with(&h) { return Some(vec![("k".into(), k.to_string()), ("delim".into(), delim.into()), ("why".into(), "header line missing or wrong".into())]); }
                hdr_len = h.len();
                body = &text[h.len()..];
            }
            if text.len() != hdr_len + recs.len() * row_len {
                format!("file size {} != header {} + {} records x row length {}", text.len(), hdr_len, recs.len(), row_len)
            } else if text.bytes().any(|b| b == 0) {
                "unwritten (NUL) bytes in the mapped file".to_string()
            } else {
                let mut w = String::new();
                for (i, r) in recs.iter().enumerate() {
                    let line = &body[i * row_len..(i + 1) * row_len];
                    if !line.ends_with('\n') { w = format!("row {} does not end its slot with a newline", i); break; }
                    if let Err(e) = row_matches(&line[..row_len - 1], r, k, true, delim) { w = format!("row {}: {}", i, e); break; }
                }
                w
            }
        }
    };
    if why.is_empty() { None } else {
        Some(vec![("k".into(), k.to_string()), ("delim".into(), delim.to_string()), ("header".into(), header.to_string()),
                  ("threads".into(), threads.to_string()), ("records".into(), recs.iter().map(|r| show(r)).collect::<Vec<_>>().join("|")), ("why".into(), why)])
    }
}

pub fn c14(o: &Opts) -> Outcome {
    let mut cases = 0u64;
    if let Some(inp) = &o.input {
        let recs: Vec<Vec<u8>> = inp["records"].split('|').map(unshow).collect();
        if inp.get("sub").map(|s| s == "ctr").unwrap_or(false) {
            return Outcome { cases: 1, witness: crate::p_count::c07_one(&recs, inp["k"].parse().unwrap(), inp["threads"].parse().unwrap(), inp["mem"].parse().unwrap(), inp["acgt"] == "true") };
        }
        return Outcome { cases: 1, witness: c14_one(&recs, inp["k"].parse().unwrap(), &inp["delim"], inp["header"] == "true", inp["threads"].parse().unwrap()) };
    }
    let mut rng = Rng(o.seed.wrapping_mul(0x9E3779B97F4A7C15) | 1);
    // delimiters that keep a failing write physically inside the last mapped page first
    // counting partitions: more partitions than threads (tiny memory ceiling) exercises the unchecked partition index
    {
        let recs: Vec<Vec<u8>> = (0..12).map(|_| { let l = 150 + rng.below(60) as usize; random_seq(&mut rng, l, 5).iter().map(|&b| if b < 0x21 || b > 0x7e || b == b'>' { b'N' } else { b }).collect() }).collect();
        for (threads, mem) in [(2usize, 1e-7f64), (1, 3e-7)] {
            cases += 1;
            if let Some(mut w) = crate::p_count::c07_one(&recs, 11, threads, mem, false) {
                w.push(("sub".into(), "ctr".into()));
                return Outcome { cases, witness: Some(w) };
            }
        }
    }
    // two computers with different k in one process (smaller k first): tables must not be shared between them
    {
        let recs: Vec<Vec<u8>> = (0..4).map(|_| { let l = 30 + rng.below(60) as usize; random_seq(&mut rng, l, 5).iter().map(|&b| if b < 0x21 || b > 0x7e || b == b'>' { b'N' } else { b }).collect() }).collect();
        for k in [3usize, 6, 4] {
            cases += 1;
            if let Some(mut w) = crate::p_cgr::c12_batch(&recs, k, 8, false, 2) { w.push(("sequence_of_k".into(), "3, 6, 4 in one process".into())); return Outcome { cases, witness: Some(w) }; }
            if let Some(w) = c14_one(&recs, k, " ", false, 2) { return Outcome { cases, witness: Some(w) }; }
        }
    }
    // the mapped file must have exactly header + records x row bytes even when the output path already holds a larger file
    {
        let sc = Scratch::new("stale");
        let out = sc.path("out.txt");
        for (n, tag) in [(5usize, "first"), (2, "second")] {
            let recs: Vec<Vec<u8>> = (0..n).map(|i| format!("ACGTACGTAC{}", "G".repeat(i)).into_bytes()).collect();
            let inp = sc.path(&format!("{}.fa", tag));
            write_fasta(&inp, &recs);
            let (i2, o2) = (inp.clone(), out.clone());
            let _ = guarded(move || { let mut c = composition::oligo::OligoComputer::new(i2, o2, 2); c.set_threads(2); c.vectorise() });
            cases += 1;
            let len = std::fs::metadata(&out).map(|m| m.len()).unwrap_or(0) as usize;
            let row = 10 * 8 + 9 + 1;
            if len != n * row {
                return Outcome { cases, witness: Some(vec![("k".into(), "2".into()), ("why".into(), format!("run '{}' into an existing output path: file has {} bytes, expected {} records x {} bytes", tag, len, n, row))]) };
            }
        }
    }
    // no record at all: the mapped file is exactly the header (or empty), not a byte more
    for header in [false, true] {
        cases += 1;
        let none: Vec<Vec<u8>> = Vec::new();
        if let Some(mut w) = c14_one(&none, 2, " ", header, 2) { w.push(("note".into(), "the input holds no record".into())); return Outcome { cases, witness: Some(w) }; }
    }
    // header lines without an identifier (`> free text`): still one record, one row slot each
    {
        let recs: Vec<Vec<u8>> = vec![b"ACGTACGT".to_vec(), b"GGCATTA".to_vec(), b"TTGACCAGT".to_vec()];
        cases += 1;
        if let Some(w) = with_ids("noid", || c14_one(&recs, 2, " ", false, 2)) { return Outcome { cases, witness: Some(w) }; }
    }
    // many records and many workers on the mapped writer: every row in its own slot, whatever the hand-out order
    {
        let n = if o.thorough { 12000 } else { 4000 };
        let recs: Vec<Vec<u8>> = (0..n).map(|i| { let l = 3 + (i * 7 % 23) as usize; (0..l).map(|j| b"ACGT"[(i + j * j + i / 5) % 4]).collect() }).collect();
        for threads in [8usize, 16] {
            cases += 1;
            if let Some(mut w) = c14_one(&recs, 2, " ", true, threads) {
                for kv in w.iter_mut() { if kv.0 == "records" { kv.1 = format!("<{} short records, record i = ACGT[(i + j*j + i/5) % 4] for j < 3 + i*7%23>", n); } }
                return Outcome { cases, witness: Some(w) };
            }
        }
    }
    // records without bases between, before and after ordinary ones: each still owns one (all-zero) row slot
    for recs in [vec![b"ACGTACGT".to_vec(), vec![], b"GGCATTA".to_vec()], vec![vec![], b"ACGGT".to_vec(), vec![], vec![]], vec![vec![], vec![]]] {
        for header in [false, true] {
            for threads in [1usize, 3] {
                cases += 1;
                if let Some(w) = c14_one(&recs, 2, " ", header, threads) { return Outcome { cases, witness: Some(w) }; }
            }
        }
    }
    for delim in ["", " ", ",", "\t", "\u{00B7}", "\u{2192}", "ab", ";;;"] {
        for k in 1..=3usize {
            for header in [false, true] {
                for nrec in [1usize, 2, 3] {
                    let recs: Vec<Vec<u8>> = (0..nrec).map(|_| { let l = 1 + rng.below(40) as usize; random_seq(&mut rng, l, 20).iter().map(|&b| if b < 0x21 || b > 0x7e || b == b'>' { b'N' } else { b }).collect() }).collect();
                    for threads in [1usize, 4] {
                        cases += 1;
                        if let Some(w) = c14_one(&recs, k, delim, header, threads) { return Outcome { cases, witness: Some(w) }; }
                    }
                }
            }
        }
    }
    Outcome { cases, witness: None }
}

/// C05: row i belongs to record i for every thread count, memory limit, writer path; header adds one line
pub fn c05(o: &Opts) -> Outcome {
    let mut cases = 0u64;
    let mut rng = Rng(o.seed.wrapping_mul(0x9E3779B97F4A7C15) | 1);
    let one = |recs: &Vec<Vec<u8>>, k: usize, norm: bool, threads: usize, mem: usize, header: bool, delim: &str| -> Option<Vec<(String, String)>> {
        let out = run_oligo(recs, k, norm, threads, delim, header, Some(mem));
        let why = match out {
            Err(e) => e,
            Ok(text) => {
                let mut lines: Vec<&str> = text.split('\n').collect();
                let mut w = String::new();
                if header {
                    let want: Vec<String> = (0..pow4(k)).filter(|&x| is_canon(x, k)).map(|x| text_of(x, k)).collect();
                    if lines.is_empty() || lines[0] != want.join(delim) { w = "first line is not the header".into(); }
                    if !lines.is_empty() { lines.remove(0); }
                }
                if w.is_empty() {
                    if lines.len() != recs.len() + 1 || !lines[recs.len()].is_empty() { w = format!("{} rows for {} records", lines.len() - 1, recs.len()); }
                    else { for (i, r) in recs.iter().enumerate() { if let Err(e) = row_matches(lines[i], r, k, norm, delim) { w = format!("row {} is not the row of record {}: {}", i, i, e); break; } } }
                }
                w
            }
        };
        if why.is_empty() { None } else {
            Some(vec![("records".into(), recs.iter().map(|r| show(r)).collect::<Vec<_>>().join("|")), ("k".into(), k.to_string()), ("norm".into(), norm.to_string()),
                      ("threads".into(), threads.to_string()), ("mem".into(), mem.to_string()), ("header".into(), header.to_string()), ("delim".into(), delim.to_string()), ("why".into(), why)])
        }
    };
    if let Some(inp) = &o.input {
        let recs: Vec<Vec<u8>> = inp["records"].split('|').map(unshow).collect();
        return Outcome { cases: 1, witness: one(&recs, inp["k"].parse().unwrap(), inp["norm"] == "true", inp["threads"].parse().unwrap(), inp["mem"].parse().unwrap(), inp["header"] == "true", &inp["delim"]) };
    }
    // an output path that already holds a longer result of an earlier run: the rows are exactly the current records' rows
    {
        let recs: Vec<Vec<u8>> = (0..3).map(|i| format!("ACGTTGCA{}", "AC".repeat(i)).into_bytes()).collect();
        for norm in [true, false] {
            cases += 1;
            std::env::set_var("VERIF_STALE_OUTPUT", "1");
            let w = one(&recs, 2, norm, 2, 4 << 30, false, " ");
            std::env::remove_var("VERIF_STALE_OUTPUT");
            if let Some(mut w) = w { w.push(("stale_output".into(), "the output file existed before the run, holding 40 longer lines".into())); return Outcome { cases, witness: Some(w) }; }
        }
    }
    // no record at all: with the header flag the output is exactly the column line, on both writers, whatever the worker count
    for norm in [true, false] {
        for threads in [1usize, 4] {
            cases += 1;
            let none: Vec<Vec<u8>> = Vec::new();
            if let Some(mut w) = one(&none, 3, norm, threads, 4 << 30, true, " ") { w.push(("note".into(), "the input holds no record".into())); return Outcome { cases, witness: Some(w) }; }
        }
    }
    // a record longer than any internal slice size between short ones: the same rows for every worker count on both writers
    {
        let long: Vec<u8> = (0..70_001usize).map(|i| b"ACGGTCATTGACCAGT"[(i * 7 + i / 13) % 16]).collect();
        let recs: Vec<Vec<u8>> = vec![b"ACGTACGTTGCA".to_vec(), long, b"GGGTTTAAACCC".to_vec()];
        for norm in [true, false] {
            for threads in [1usize, 3, 16] {
                cases += 1;
                if let Some(mut w) = one(&recs, 3, norm, threads, 4 << 30, false, " ") {
                    for kv in w.iter_mut() { if kv.0 == "records" { kv.1 = "ACGTACGTTGCA|<70001 bases: ACGGTCATTGACCAGT[(i*7 + i/13) % 16]>|GGGTTTAAACCC".into(); } }
                    return Outcome { cases, witness: Some(w) };
                }
            }
        }
    }
    // records without bases at the end of the input (and everywhere): one all-zero row each on both writer paths
    for recs in [vec![b"ACGTACGT".to_vec(), vec![], vec![]], vec![vec![], vec![]], vec![vec![], b"ACGGT".to_vec(), vec![]]] {
        for norm in [false, true] {
            for mem in [1usize, 6, 4 << 30] {
                cases += 1;
                if let Some(w) = one(&recs, 2, norm, 2, mem, false, " ") { return Outcome { cases, witness: Some(w) }; }
            }
        }
    }
    // the same records through every container give the same bytes
    for round in 0..(if o.thorough { 12 } else { 3 }) {
        let n = 2 + rng.below(20) as usize;
        let recs: Vec<Vec<u8>> = (0..n).map(|_| { let l = 1 + rng.below(120) as usize; random_seq(&mut rng, l, 10).iter().map(|&b| if b < 0x21 || b > 0x7e || b == b'>' || b == b'@' || b == b'+' { b'N' } else { b }).collect() }).collect();
        for norm in [true, false] {
            let base = run_oligo_in(&recs, 1 + round % 3, norm, 2, " ", false, None, "fa");
            for c in ["fa-wrap", "fq", "fa-gz", "fq-gz", "fa-gzm"] {
                cases += 1;
                let other = run_oligo_in(&recs, 1 + round % 3, norm, 2, " ", false, None, c);
                if other != base {
                    return Outcome { cases, witness: Some(vec![("records".into(), recs.iter().map(|r| show(r)).collect::<Vec<_>>().join("|")), ("k".into(), (1 + round % 3).to_string()), ("norm".into(), norm.to_string()),
                        ("threads".into(), "2".into()), ("mem".into(), (4usize << 30).to_string()), ("header".into(), "false".into()), ("delim".into(), " ".into()), ("container".into(), c.to_string()),
                        ("why".into(), format!("output for container {} differs from the single-line FASTA output", c))]) };
                }
            }
        }
    }
    // many short records, many workers: a row claimed by anything but the record's own ordinal shows up here
    for rep in 0..(if o.thorough { 12 } else { 3 }) {
        let recs: Vec<Vec<u8>> = (0..20000).map(|i| { let l = 4 + (i % 7) as usize; random_seq(&mut rng, l, 0) }).collect();
        for threads in [8usize, 2] {
            cases += 1;
            if let Some(mut w) = one(&recs, 2, true, threads, 4 << 30, rep % 2 == 0, " ") {
                // keep the witness small in the report
                for kv in w.iter_mut() { if kv.0 == "records" { kv.1 = format!("<{} random records of 4..10 bases, seed-derived>", recs.len()); } }
                return Outcome { cases, witness: Some(w) };
            }
        }
    }
    for round in 0..(if o.thorough { 60 } else { 10 }) {
        let n = 1 + rng.below(if round % 3 == 0 { 300 } else { 12 }) as usize;
        let recs: Vec<Vec<u8>> = (0..n).map(|_| { let l = 1 + rng.below(150) as usize; random_seq(&mut rng, l, 10).iter().map(|&b| if b < 0x21 || b > 0x7e || b == b'>' { b'N' } else { b }).collect() }).collect();
        let k = 1 + (round % 4) as usize;
        for norm in [true, false] {
            for threads in [1usize, 3, 16] {
                for mem in [1usize, 40, 90, 200, 4 << 30] {
                    let header = rng.below(2) == 0;
                    let delim = [" ", ",", "\t"][rng.below(3) as usize];
                    cases += 1;
                    if let Some(w) = one(&recs, k, norm, threads, mem, header, delim) { return Outcome { cases, witness: Some(w) }; }
                }
            }
        }
    }
    Outcome { cases, witness: None }
}

/// run `OligoComputer::new("-", out, k).vectorise()` in a child process of this program with the FASTA on its stdin
pub fn stdin_child(args: &[String]) {
    // args: out k norm
    let out = args[0].clone();
    let k: usize = args[1].parse().unwrap();
    let norm = args[2] == "true";
    let mut c = composition::oligo::OligoComputer::new("-".to_string(), out, k);
    c.set_norm(norm);
    c.set_threads(2);
    let r = c.vectorise();
    std::process::exit(if r.is_ok() { 0 } else { 3 });
}

fn stdin_batch(recs: &[Vec<u8>], k: usize, norm: bool) -> Option<Vec<(String, String)>> {
    use std::io::Write;
    let sc = Scratch::new("stdin");
    let out = sc.path("out.txt");
    let mut fasta: Vec<u8> = Vec::new();
    for (i, r) in recs.iter().enumerate() { fasta.extend_from_slice(format!(">r{}\n", i).as_bytes()); fasta.extend_from_slice(r); fasta.push(b'\n'); }
    let exe = std::env::current_exe().ok()?;
    let mut child = std::process::Command::new(exe).args(["stdin-oligo", &out, &k.to_string(), if norm { "true" } else { "false" }])
        .stdin(std::process::Stdio::piped()).stdout(std::process::Stdio::null()).stderr(std::process::Stdio::null()).spawn().ok()?;
    child.stdin.take()?.write_all(&fasta).ok()?;
    let st = child.wait().ok()?;
    let mut why = String::new();
    if !st.success() { why = format!("streamed input: the run failed ({:?})", st.code()); }
    else {
        let text = std::fs::read_to_string(&out).unwrap_or_default();
        let lines: Vec<&str> = text.split('\n').collect();
        if lines.len() != recs.len() + 1 { why = format!("streamed input: {} rows for {} records", lines.len() - 1, recs.len()); }
        else { for (i, r) in recs.iter().enumerate() { if let Err(e) = row_matches(lines[i], r, k, norm, " ") { why = format!("streamed input, row {}: {}", i, e); break; } } }
        // the two writers render the same numbers: the file written from streamed input (batched writer) equals, byte for
        // byte, the file written from a file input (mapped writer when normalised)
        if why.is_empty() {
            if let Ok(file_text) = run_oligo(recs, k, norm, 2, " ", false, None) {
                if file_text != text {
                    let fl: Vec<&str> = file_text.split('\n').collect();
                    let row = lines.iter().zip(fl.iter()).position(|(a, b)| a != b).unwrap_or(0);
                    why = format!("streamed input and file input give different text for the same records (first difference in row {}: {:?} vs {:?})", row,
                                  lines.get(row).map(|l| &l[..l.len().min(60)]), fl.get(row).map(|l| &l[..l.len().min(60)]));
                }
            }
        }
    }
    if why.is_empty() { None } else {
        Some(vec![("seq".into(), recs.iter().map(|r| show(r)).collect::<Vec<_>>().join("|")), ("k".into(), k.to_string()), ("norm".into(), norm.to_string()), ("input".into(), "stdin (-)".into()), ("why".into(), why)])
    }
}
