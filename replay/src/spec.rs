//! Executable transcription of the spec vocabulary of DESIGN.md section 3 (oracle side).
//! Deliberately naive: direct definitions, no shift registers.

pub fn nt(b: u8) -> u8 {
    match b {
        b'A' | b'a' => 0,
        b'C' | b'c' => 1,
        b'G' | b'g' => 2,
        b'T' | b't' | b'U' | b'u' => 3,
        _ => 4,
    }
}

pub fn clean(b: u8) -> bool {
    nt(b) < 4
}

pub fn fcode(w: &[u8]) -> u64 {
    let mut x: u64 = 0;
    for &b in w {
        x = x * 4 + nt(b) as u64;
    }
    x
}

/// code of the reverse-complemented text of w
pub fn rcode(w: &[u8]) -> u64 {
    let mut x: u64 = 0;
    for &b in w.iter().rev() {
        x = x * 4 + (3 - nt(b)) as u64;
    }
    x
}

pub fn window_clean(w: &[u8]) -> bool {
    w.iter().all(|&b| clean(b))
}

/// (end position p, fcode, rcode) for every valid window s[p-k..p], increasing p
pub fn kmers_spec(s: &[u8], k: usize) -> Vec<(usize, u64, u64)> {
    let mut out = Vec::new();
    if k == 0 || s.len() < k {
        return out;
    }
    for p in k..=s.len() {
        let w = &s[p - k..p];
        if window_clean(w) {
            out.push((p, fcode(w), rcode(w)));
        }
    }
    out
}

pub fn pow4(k: usize) -> u64 {
    1u64 << (2 * k)
}

/// arithmetic reverse complement of a code
pub fn rc_num(x: u64, k: usize) -> u64 {
    let mut x = x;
    let mut r = 0u64;
    for _ in 0..k {
        r = r * 4 + (3 - x % 4);
        x /= 4;
    }
    r
}

pub fn text_of(x: u64, k: usize) -> String {
    let mut v = vec![b'A'; k];
    let mut x = x;
    for i in (0..k).rev() {
        v[i] = b"ACGT"[(x % 4) as usize];
        x /= 4;
    }
    String::from_utf8(v).unwrap()
}

pub fn is_canon(x: u64, k: usize) -> bool {
    x < pow4(k) && x <= rc_num(x, k)
}

pub fn canon(w: &[u8]) -> u64 {
    fcode(w).min(rcode(w))
}

pub fn rc_text(w: &[u8]) -> Vec<u8> {
    w.iter()
        .rev()
        .map(|&b| match nt(b) {
            0 => b'T',
            1 => b'G',
            2 => b'C',
            3 => b'A',
            _ => b,
        })
        .collect()
}

/// maximal runs of consecutive full clean windows with the same minimiser: (min, start, end)
pub fn runs_spec(s: &[u8], w: usize, m: usize) -> Vec<(u64, usize, usize)> {
    let mut out: Vec<(u64, usize, usize)> = Vec::new();
    if w == 0 || m == 0 || m > w || s.len() < w {
        return out;
    }
    let mut cur: Option<(u64, usize, usize)> = None;
    for i in 0..=(s.len() - w) {
        let win = &s[i..i + w];
        if !window_clean(win) {
            if let Some(c) = cur.take() {
                out.push(c);
            }
            continue;
        }
        let mut mn = u64::MAX;
        for j in 0..=(w - m) {
            mn = mn.min(canon(&win[j..j + m]));
        }
        match cur {
            Some((v, a, _)) if v == mn => cur = Some((v, a, i + w)),
            Some(c) => {
                out.push(c);
                cur = Some((mn, i, i + w));
            }
            None => cur = Some((mn, i, i + w)),
        }
    }
    if let Some(c) = cur.take() {
        out.push(c);
    }
    out
}

/// canonical w-mers of all valid windows, in order
pub fn canon_wmers(s: &[u8], w: usize) -> Vec<u64> {
    kmers_spec(s, w).into_iter().map(|(_, f, r)| f.min(r)).collect()
}

pub struct Rng(pub u64);
impl Rng {
    pub fn next(&mut self) -> u64 {
        // xorshift64*
        let mut x = self.0;
        x ^= x >> 12;
        x ^= x << 25;
        x ^= x >> 27;
        self.0 = x;
        x.wrapping_mul(0x2545F4914F6CDD1D)
    }
    pub fn below(&mut self, n: u64) -> u64 {
        self.next() % n
    }
}

/// enumerate all strings over `alpha` of length 0..=maxlen, calling f; stops when f returns true
pub fn for_all_strings(alpha: &[u8], maxlen: usize, f: &mut dyn FnMut(&[u8]) -> bool) -> bool {
    let mut buf: Vec<u8> = Vec::new();
    for len in 0..=maxlen {
        buf.clear();
        buf.resize(len, alpha[0]);
        let mut idx = vec![0usize; len];
        loop {
            for i in 0..len {
                buf[i] = alpha[idx[i]];
            }
            if f(&buf) {
                return true;
            }
            // increment
            let mut i = 0;
            while i < len {
                idx[i] += 1;
                if idx[i] < alpha.len() {
                    break;
                }
                idx[i] = 0;
                i += 1;
            }
            if i == len {
                break;
            }
        }
    }
    false
}

pub fn random_seq(rng: &mut Rng, len: usize, amb_per_mille: u64) -> Vec<u8> {
    let letters = b"ACGTacgtUu";
    let others = b"NnRYKM-*XZ@ \n";
    (0..len)
        .map(|_| {
            if rng.below(1000) < amb_per_mille {
                if rng.below(4) == 0 {
                    // any byte >= 4 that is not a letter of the alphabet
                    let b = 4 + rng.below(252) as u8;
                    if clean(b) { b'N' } else { b }
                } else {
                    others[rng.below(others.len() as u64) as usize]
                }
            } else {
                letters[rng.below(letters.len() as u64) as usize]
            }
        })
        .collect()
}

pub fn show(s: &[u8]) -> String {
    s.iter()
        .map(|&b| if (0x20..0x7f).contains(&b) && b != b'\\' { (b as char).to_string() } else { format!("\\x{:02x}", b) })
        .collect()
}

pub fn unshow(t: &str) -> Vec<u8> {
    let b = t.as_bytes();
    let mut out = Vec::new();
    let mut i = 0;
    while i < b.len() {
        if b[i] == b'\\' && i + 3 < b.len() && b[i + 1] == b'x' {
            out.push(u8::from_str_radix(std::str::from_utf8(&b[i + 2..i + 4]).unwrap(), 16).unwrap());
            i += 4;
        } else {
            out.push(b[i]);
            i += 1;
        }
    }
    out
}
