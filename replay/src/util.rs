//! helpers shared by the file-level witness searches
use std::path::PathBuf;

pub fn guarded<T>(f: impl FnOnce() -> T + std::panic::UnwindSafe) -> Result<T, String> {
    let prev = std::panic::take_hook();
    std::panic::set_hook(Box::new(|_| {}));
    let r = std::panic::catch_unwind(f).map_err(|e| {
        if let Some(s) = e.downcast_ref::<&str>() { s.to_string() } else if let Some(s) = e.downcast_ref::<String>() { s.clone() } else { "panic".to_string() }
    });
    std::panic::set_hook(prev);
    r
}

/// scratch directory for input/output files of file-level API calls (under /verif/build, removed at exit)
pub struct Scratch(pub PathBuf);
impl Scratch {
    pub fn new(tag: &str) -> Scratch {
        let base = std::env::var("VERIF_SCRATCH").unwrap_or_else(|_| "/verif/build/replay-scratch".to_string());
        let p = PathBuf::from(base).join(format!("{}-{}", tag, std::process::id()));
        let _ = std::fs::remove_dir_all(&p);
        std::fs::create_dir_all(&p).unwrap();
        Scratch(p)
    }
    pub fn path(&self, name: &str) -> String { self.0.join(name).to_str().unwrap().to_string() }
}
impl Drop for Scratch {
    fn drop(&mut self) { let _ = std::fs::remove_dir_all(&self.0); }
}

/// name of the input file of a file-level call: plain FASTA, or (VERIF_INPUT_GZM set) a gzip file of several members
pub fn in_name() -> &'static str { if std::env::var("VERIF_INPUT_GZM").is_ok() { "in.fa.gz" } else { "in.fa" } }

pub fn write_fasta(path: &str, recs: &[Vec<u8>]) {
    let ser = |from: usize, to: usize| -> Vec<u8> {
        let mut s: Vec<u8> = Vec::new();
        for (i, r) in recs.iter().enumerate().skip(from).take(to - from) {
            s.extend_from_slice(format!(">r{}\n", i).as_bytes());
            s.extend_from_slice(r);
            s.push(b'\n');
        }
        s
    };
    if path.ends_with(".gz") {
        // three members (records split between them) and an empty one, as `cat a.gz b.gz c.gz` / bgzip produce
        use std::io::Write;
        let n = recs.len();
        let cuts = [0, (n + 2) / 3, (2 * n + 2) / 3, n];
        let mut out: Vec<u8> = Vec::new();
        for w in cuts.windows(2) {
            let mut e = flate2::write::GzEncoder::new(Vec::new(), flate2::Compression::default());
            e.write_all(&ser(w[0], w[1])).unwrap();
            out.extend(e.finish().unwrap());
        }
        let e = flate2::write::GzEncoder::new(Vec::new(), flate2::Compression::default());
        out.extend(e.finish().unwrap());
        std::fs::write(path, out).unwrap();
    } else {
        std::fs::write(path, ser(0, recs.len())).unwrap();
    }
}

/// run `f` with the input written as a multi-member gzip file; a witness gets the container noted
pub fn with_gzm(f: impl FnOnce() -> Option<Vec<(String, String)>>) -> Option<Vec<(String, String)>> {
    std::env::set_var("VERIF_INPUT_GZM", "1");
    let w = f();
    std::env::remove_var("VERIF_INPUT_GZM");
    w.map(|mut w| { w.push(("input_gzm".into(), "the input is a gzip file of several members (records split between them) plus an empty member".into())); w })
}

/// When VERIF_STALE_OUTPUT is set, leave a longer result of an "earlier run" at the output path before the call
pub fn maybe_stale(out: &str) {
    if std::env::var("VERIF_STALE_OUTPUT").is_ok() {
        let junk: String = (0..400).map(|_| "(0.5,0.5,7) (0.25,0.75,1) (0.5,0.5) 0.123456 0.123456 0.123456 0.123456 0.123456 0.123456 0.5\n").collect();
        std::fs::write(out, junk).unwrap();
    }
}
