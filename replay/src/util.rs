//! helpers shared by the file-level witness searches
use std::path::PathBuf;

pub fn guarded<T>(f: impl FnOnce() -> T + std::panic::UnwindSafe) -> Result<T, String> {
    let prev = std::panic::take_hook();
    std::panic::set_hook(Box::new(|_| {}));
    let r = std::panic::catch_unwind(f).map_err(|e| {
        if let Some(s) = e.downcast_ref::<&str>() { s.to_string() } else if let Some(s) = e.downcast_ref::<String>() { s.clone() } else { "panic".to_string() }
    });
    std::panic::set_hook(prev);
    r
}

/// scratch directory for input/output files of file-level API calls (under /verif/build, removed at exit)
pub struct Scratch(pub PathBuf);
impl Scratch {
    pub fn new(tag: &str) -> Scratch {
        let base = std::env::var("VERIF_SCRATCH").unwrap_or_else(|_| "/verif/build/replay-scratch".to_string());
        let p = PathBuf::from(base).join(format!("{}-{}", tag, std::process::id()));
        let _ = std::fs::remove_dir_all(&p);
        std::fs::create_dir_all(&p).unwrap();
        Scratch(p)
    }
    pub fn path(&self, name: &str) -> String { self.0.join(name).to_str().unwrap().to_string() }
}
impl Drop for Scratch {
    fn drop(&mut self) { let _ = std::fs::remove_dir_all(&self.0); }
}

/// container of the input file of a file-level call, chosen by VERIF_INPUT_KIND:
///   (unset) plain FASTA `in.fa`; `gzm` gzip of several members; `fq` FASTQ; `fqgz` gzipped FASTQ (.fastq.gz);
///   `wrap` FASTA wrapped at 7 columns (.fasta); `crlf` FASTA with CRLF line ends and no final newline (.fna)
pub fn in_kind() -> String { std::env::var("VERIF_INPUT_KIND").unwrap_or_default() }
pub fn in_name() -> &'static str {
    match in_kind().as_str() { "gzm" => "in.fa.gz", "fq" => "in.fq", "fqgz" => "in.fastq.gz", "wrap" => "in.fasta", "crlf" => "in.fna", _ => "in.fa" }
}

/// identifier of record i in the generated inputs: `r<i>`; VERIF_IDS=dup gives every two consecutive records the same
/// identifier; VERIF_IDS=noid writes header lines without an identifier (` free text <i>`)
pub fn rec_id(i: usize) -> String {
    match std::env::var("VERIF_IDS").unwrap_or_default().as_str() {
        "dup" => format!("r{}", i / 2),
        "noid" => format!(" free text {}", i),
        _ => format!("r{}", i),
    }
}
pub fn with_ids(kind: &str, f: impl FnOnce() -> Option<Vec<(String, String)>>) -> Option<Vec<(String, String)>> {
    std::env::set_var("VERIF_IDS", kind);
    let w = f();
    std::env::remove_var("VERIF_IDS");
    w.map(|mut w| { w.push(("ids".into(), kind.to_string())); w })
}

/// BGZF (bgzip): gzip members of at most 64 KiB each carrying the `BC` extra field with the block size; empty data gives the
/// empty block that marks the end of a bgzip output.  Still plain multi-member gzip for any reader that ignores the extra field.
pub fn bgzf_bytes(data: &[u8]) -> Vec<u8> {
    use std::io::Write;
    let block = |d: &[u8]| -> Vec<u8> {
        let mut e = flate2::write::DeflateEncoder::new(Vec::new(), flate2::Compression::default());
        e.write_all(d).unwrap();
        let c = e.finish().unwrap();
        let mut crc = flate2::Crc::new(); crc.update(d);
        let bsize = (18 + c.len() + 8 - 1) as u16;
        let mut b: Vec<u8> = vec![0x1f, 0x8b, 8, 4, 0, 0, 0, 0, 0, 0xff, 6, 0, b'B', b'C', 2, 0, (bsize & 0xff) as u8, (bsize >> 8) as u8];
        b.extend(c);
        b.extend_from_slice(&crc.sum().to_le_bytes());
        b.extend_from_slice(&(d.len() as u32).to_le_bytes());
        b
    };
    let mut out: Vec<u8> = Vec::new();
    if data.is_empty() { out.extend(block(b"")); }
    for ch in data.chunks(0xff00) { out.extend(block(ch)); }
    out
}

pub fn write_fasta(path: &str, recs: &[Vec<u8>]) {
    use std::io::Write;
    let kind = in_kind();
    let ser = |from: usize, to: usize| -> Vec<u8> {
        let mut s: Vec<u8> = Vec::new();
        for (i, r) in recs.iter().enumerate().skip(from).take(to - from) {
            match kind.as_str() {
                "fq" | "fqgz" => {
                    s.extend_from_slice(format!("@{} length={}\n", rec_id(i), r.len()).as_bytes());
                    s.extend_from_slice(r);
                    s.extend_from_slice(b"\n+\n");
                    for j in 0..r.len() { s.push(b"@I+5;>#"[(j + r.len()) % 7]); }
                    s.push(b'\n');
                }
                "wrap" => {
                    s.extend_from_slice(format!(">{} wrapped\n", rec_id(i)).as_bytes());
                    for ch in r.chunks(7) { s.extend_from_slice(ch); s.push(b'\n'); }
                }
                "crlf" => {
                    s.extend_from_slice(format!(">{}\r\n", rec_id(i)).as_bytes());
                    s.extend_from_slice(r);
                    if i + 1 < recs.len() { s.extend_from_slice(b"\r\n"); }
                }
                _ => {
                    s.extend_from_slice(format!(">{}\n", rec_id(i)).as_bytes());
                    s.extend_from_slice(r);
                    s.push(b'\n');
                }
            }
        }
        s
    };
    let gz = |data: &[u8]| -> Vec<u8> {
        let mut e = flate2::write::GzEncoder::new(Vec::new(), flate2::Compression::default());
        e.write_all(data).unwrap();
        e.finish().unwrap()
    };
    let bgzf = |data: &[u8]| -> Vec<u8> { bgzf_bytes(data) };
    if kind == "gzm" {
        // `cat a.gz b.gz` of two bgzip outputs (blocks + end marker each): the records are split between three runs of blocks,
        // and an empty block sits in the middle and at the end (ordinary multi-member gzip: kind fqgz)
        let n = recs.len();
        let cuts = [0, (n + 2) / 3, (2 * n + 2) / 3, n];
        let mut out: Vec<u8> = Vec::new();
        out.extend(bgzf(&ser(cuts[0], cuts[1]))); out.extend(bgzf(b""));
        out.extend(bgzf(&ser(cuts[1], cuts[2])));
        out.extend(bgzf(&ser(cuts[2], cuts[3]))); out.extend(bgzf(b""));
        std::fs::write(path, out).unwrap();
    } else if kind == "fqgz" {
        // two ordinary gzip members
        let h = recs.len() / 2;
        let mut out = gz(&ser(0, h)); out.extend(gz(&ser(h, recs.len())));
        std::fs::write(path, out).unwrap();
    } else {
        std::fs::write(path, ser(0, recs.len())).unwrap();
    }
}

/// run `f` with the input written in another container; a witness gets the container noted.
/// FASTQ cannot hold a record without bases: such cases are skipped for the FASTQ kinds.
pub fn with_kind(kind: &str, recs: &[Vec<u8>], f: impl FnOnce() -> Option<Vec<(String, String)>>) -> Option<Vec<(String, String)>> {
    if kind.starts_with("fq") && recs.iter().any(|r| r.is_empty()) { return None; }
    if kind.is_empty() { return f(); }
    std::env::set_var("VERIF_INPUT_KIND", kind);
    let w = f();
    std::env::remove_var("VERIF_INPUT_KIND");
    w.map(|mut w| { w.push(("input_kind".into(), kind.to_string())); w })
}
pub const KINDS: [&str; 5] = ["gzm", "fq", "fqgz", "wrap", "crlf"];
pub fn with_gzm(f: impl FnOnce() -> Option<Vec<(String, String)>>) -> Option<Vec<(String, String)>> { with_kind("gzm", &[], f) }

/// When VERIF_STALE_OUTPUT is set, leave a longer result of an "earlier run" at the output path before the call
pub fn maybe_stale(out: &str) {
    if std::env::var("VERIF_STALE_OUTPUT").is_ok() {
        let junk: String = (0..400).map(|_| "(0.5,0.5,7) (0.25,0.75,1) (0.5,0.5) 0.123456 0.123456 0.123456 0.123456 0.123456 0.123456 0.5\n").collect();
        std::fs::write(out, junk).unwrap();
    }
}
