//! helpers shared by the file-level witness searches
use std::path::PathBuf;

pub fn guarded<T>(f: impl FnOnce() -> T + std::panic::UnwindSafe) -> Result<T, String> {
    let prev = std::panic::take_hook();
    std::panic::set_hook(Box::new(|_| {}));
    let r = std::panic::catch_unwind(f).map_err(|e| {
        if let Some(s) = e.downcast_ref::<&str>() { s.to_string() } else if let Some(s) = e.downcast_ref::<String>() { s.clone() } else { "panic".to_string() }
    });
    std::panic::set_hook(prev);
    r
}

/// scratch directory for input/output files of file-level API calls (under /verif/build, removed at exit)
pub struct Scratch(pub PathBuf);
impl Scratch {
    pub fn new(tag: &str) -> Scratch {
        let base = std::env::var("VERIF_SCRATCH").unwrap_or_else(|_| "/verif/build/replay-scratch".to_string());
        let p = PathBuf::from(base).join(format!("{}-{}", tag, std::process::id()));
        let _ = std::fs::remove_dir_all(&p);
        std::fs::create_dir_all(&p).unwrap();
        Scratch(p)
    }
    pub fn path(&self, name: &str) -> String { self.0.join(name).to_str().unwrap().to_string() }
}
impl Drop for Scratch {
    fn drop(&mut self) { let _ = std::fs::remove_dir_all(&self.0); }
}

pub fn write_fasta(path: &str, recs: &[Vec<u8>]) {
    let mut s: Vec<u8> = Vec::new();
    for (i, r) in recs.iter().enumerate() {
        s.extend_from_slice(format!(">r{}\n", i).as_bytes());
        s.extend_from_slice(r);
        s.push(b'\n');
    }
    std::fs::write(path, s).unwrap();
}

/// When VERIF_STALE_OUTPUT is set, leave a longer result of an "earlier run" at the output path before the call
pub fn maybe_stale(out: &str) {
    if std::env::var("VERIF_STALE_OUTPUT").is_ok() {
        let junk: String = (0..400).map(|_| "(0.5,0.5,7) (0.25,0.75,1) (0.5,0.5) 0.123456 0.123456 0.123456 0.123456 0.123456 0.123456 0.5\n").collect();
        std::fs::write(out, junk).unwrap();
    }
}
