#!/bin/sh
# Run once after a fresh restore, offline.  Builds what the checks reuse (replay program, Kani
# harness crates) from files on disk only; everything goes under /verif/build.
set -e
cd "$(dirname "$0")"
ROOT="$(pwd)"
export CARGO_NET_OFFLINE=true
mkdir -p build evidence
if [ -x tools/build_replay.sh ]; then tools/build_replay.sh || echo "setup: replay program not built (witness search disabled)" >&2; fi
# warm the build of the Python extension that the C13 stand-in drives (rebuilt incrementally from /repo's tree when needed)
(cd /repo && CARGO_TARGET_DIR="$ROOT/build/py-target" cargo build -p pip --offline --features pyo3/extension-module >/dev/null 2>&1) || echo "setup: python extension not pre-built (built on demand)" >&2
echo "setup done"
