#!/bin/sh
# Run once after a fresh restore, offline.  Builds what the checks reuse (replay program, Kani
# harness crates) from files on disk only; everything goes under /verif/build.
set -e
cd "$(dirname "$0")"
export CARGO_NET_OFFLINE=true
mkdir -p build evidence
if [ -x tools/build_replay.sh ]; then tools/build_replay.sh || echo "setup: replay program not built (witness search disabled)" >&2; fi
echo "setup done"
