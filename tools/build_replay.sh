#!/bin/sh
# Build the native witness-search program against /repo's current working tree (hooks on).
set -e
ROOT="$(cd "$(dirname "$0")/.." && pwd)"
cd "$ROOT/replay"
cp /repo/Cargo.lock Cargo.lock
export CARGO_NET_OFFLINE=true
export CARGO_TARGET_DIR="$ROOT/build/replay-target"
export RUSTFLAGS="--cfg kmertools_verif -Awarnings"
exec cargo build --release --offline "$@"
