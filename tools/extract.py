#!/usr/bin/env python3
"""Extractor: builds a Verus (or Kani) unit file from a contract template and
the *current working tree* of /repo.

A template is ordinary Verus text in which executable code of the repository
appears only through directive blocks:

    //@extract <kind> <file> <name> [rules=R1,R3,...] [opt=val ...]
    //@returns r                      R4: name the return value
    //@attr #[verifier::rlimit(100)]  attribute placed in front of the item
    //@sig                            ghost text inserted between signature and body
    <verus text>
    //@body-start                     ghost text inserted right after the body's `{`
    <verus text>
    //@body-end                       ghost text inserted right before the body's final `}`
    //@loop N                         loop-header spec (invariant/decreases) of the N-th loop (source order)
    //@loop N body-start
    //@loop N body-end
    //@loop N before                  ghost text placed in front of the N-th loop statement
    //@after-stmt /regex/ [#k]        textual anchor: after the `;` closing the statement containing the k-th match
    //@before-line /regex/ [#k]       textual anchor: at the start of the line containing the k-th match
    //@end

kinds: const NAME | type NAME | struct NAME | fn NAME | method TYPE::NAME
       | stmts FN from=/re/ to=/re/ (M3: statement range lifted out of FN, see lift())

Executable tokens are copied verbatim from the source file; the only changes
are the rewrite rules listed in DESIGN.md section 2.1 (R1..R9), each applied
only when named in `rules=` and each logged (before/after) in the extraction
report.  A directive whose anchor is not found raises LostAnchor: the caller
turns that into exit code 2 (undecided), never into an alarm.
"""
import hashlib
import json
import os
import re
import sys

sys.path.insert(0, os.path.dirname(os.path.abspath(__file__)))
from rustlex import lex, code_tokens, match_close, LexError  # noqa: E402


class LostAnchor(Exception):
    pass


REPO = os.environ.get('VERIF_REPO', '/repo')


# --------------------------------------------------------------------------
# locating items
# --------------------------------------------------------------------------

class Source:
    def __init__(self, relpath):
        self.relpath = relpath
        self.path = os.path.join(REPO, relpath)
        try:
            with open(self.path, encoding='utf-8') as f:
                self.text = f.read()
        except OSError as e:
            raise LostAnchor('cannot read %s: %s' % (relpath, e))
        try:
            self.toks = code_tokens(lex(self.text))
        except LexError as e:
            raise LostAnchor('cannot lex %s: %s' % (relpath, e))

    def line_of(self, off):
        return self.text.count('\n', 0, off) + 1


def _skip_test_mod(toks):
    """indices of tokens that lie inside `mod tests { }` (ignored when searching)."""
    skip = set()
    i = 0
    while i < len(toks):
        t = toks[i]
        if t.kind == 'ident' and t.text == 'mod' and i + 2 < len(toks) and toks[i + 1].text == 'tests' and toks[i + 2].text == '{':
            j = match_close(toks, i + 2)
            skip.update(range(i, j + 1))
            i = j + 1
        else:
            i += 1
    return skip


def find_simple_item(src, kw, name):
    """`const NAME ... ;`, `type NAME ... ;`"""
    toks = src.toks
    skip = _skip_test_mod(toks)
    hits = []
    for i, t in enumerate(toks):
        if i in skip:
            continue
        if t.kind == 'ident' and t.text == kw and i + 1 < len(toks) and toks[i + 1].text == name:
            d = t.depth
            for j in range(i, len(toks)):
                if toks[j].text == ';' and toks[j].depth == d:
                    hits.append((i, j))
                    break
    if len(hits) != 1:
        raise LostAnchor('%s %s: %d matches in %s' % (kw, name, len(hits), src.relpath))
    i, j = hits[0]
    return toks[i].start, toks[j].end


def find_struct(src, name):
    toks = src.toks
    skip = _skip_test_mod(toks)
    hits = []
    for i, t in enumerate(toks):
        if i in skip:
            continue
        if t.kind == 'ident' and t.text in ('struct', 'enum') and i + 1 < len(toks) and toks[i + 1].text == name:
            d = t.depth
            for j in range(i, len(toks)):
                if toks[j].depth == d and toks[j].text == '{':
                    hits.append((i, match_close(toks, j)))
                    break
                if toks[j].depth == d and toks[j].text == ';':
                    hits.append((i, j))
                    break
    if len(hits) != 1:
        raise LostAnchor('struct %s: %d matches in %s' % (name, len(hits), src.relpath))
    i, j = hits[0]
    return toks[i].start, toks[j].end


def impl_blocks(src, typename):
    """yield (open_idx, close_idx, header_tokens) of impl blocks for typename."""
    toks = src.toks
    skip = _skip_test_mod(toks)
    out = []
    for i, t in enumerate(toks):
        if i in skip:
            continue
        if t.kind == 'ident' and t.text == 'impl' and t.depth == 0:
            j = i
            while j < len(toks) and not (toks[j].text == '{' and toks[j].depth == 0):
                j += 1
            if j >= len(toks):
                continue
            hdr = toks[i + 1:j]
            # self type = first identifier after `for` if present, else first identifier after generics
            names = [h.text for h in hdr]
            k = 0
            if 'for' in names:
                k = names.index('for') + 1
            else:
                # skip leading <...>
                if names and names[0] == '<':
                    lvl = 0
                    for k2, nm in enumerate(names):
                        if nm == '<':
                            lvl += 1
                        elif nm == '>':
                            lvl -= 1
                            if lvl == 0:
                                k = k2 + 1
                                break
            selfty = None
            for h in hdr[k:]:
                if h.kind == 'ident':
                    selfty = h.text
                    break
            if selfty == typename:
                out.append((j, match_close(toks, j), hdr))
    return out


def _fn_at(toks, i):
    """toks[i] is `fn`; return (first_idx, sig_open_brace_idx, close_idx)."""
    d = toks[i].depth
    j = i
    while not (toks[j].text == '{' and toks[j].depth == d):
        if toks[j].text == ';' and toks[j].depth == d:
            raise LostAnchor('fn without body')
        j += 1
    close = match_close(toks, j)
    first = i
    while first > 0 and toks[first - 1].depth == d and toks[first - 1].text in ('unsafe', 'const', 'async'):
        first -= 1
    return first, j, close


def find_fn(src, name, lo=0, hi=None, depth=0):
    toks = src.toks
    hi = len(toks) if hi is None else hi
    skip = _skip_test_mod(toks)
    hits = []
    for i in range(lo, hi):
        if i in skip:
            continue
        t = toks[i]
        if t.kind == 'ident' and t.text == 'fn' and t.depth == depth and toks[i + 1].text == name:
            hits.append(_fn_at(toks, i))
    return hits


def find_method(src, typename, name):
    hits = []
    blocks = impl_blocks(src, typename)
    for (o, c, hdr) in blocks:
        for h in find_fn(src, name, o + 1, c, depth=1):
            hits.append((h, (o, c, hdr)))
    if len(hits) != 1:
        raise LostAnchor('method %s::%s: %d matches in %s' % (typename, name, len(hits), src.relpath))
    return hits[0]


# --------------------------------------------------------------------------
# edit list over a source range
# --------------------------------------------------------------------------

class Piece:
    """A source range [start,end) of src.text with a list of edits."""

    def __init__(self, src, start, end):
        self.src = src
        self.start = start
        self.end = end
        self.edits = []       # (pos, end_pos, new_text, order, tag)
        self._order = 0
        self.log = []

    def insert(self, pos, text, tag):
        self._order += 1
        self.edits.append((pos, pos, text, self._order, tag))

    def replace(self, s, e, text, tag):
        self._order += 1
        self.edits.append((s, e, text, self._order, tag))
        self.log.append({'rule': tag, 'before': self.src.text[s:e], 'after': text, 'line': self.src.line_of(s)})

    def render(self):
        out = []
        cur = self.start
        for (s, e, text, order, tag) in sorted(self.edits, key=lambda x: (x[0], 0 if x[1] == x[0] else 1, x[3])):
            if s < cur:
                raise LostAnchor('overlapping edits at line %d (%s)' % (self.src.line_of(s), tag))
            out.append(self.src.text[cur:s])
            out.append(text)
            cur = e
        out.append(self.src.text[cur:self.end])
        return ''.join(out)


def toks_in(src, start, end):
    return [t for t in src.toks if t.start >= start and t.end <= end]


# --------------------------------------------------------------------------
# loops
# --------------------------------------------------------------------------

def find_loops(src, body_open_tok, body_close_tok):
    """loops inside a fn body in source order: list of dict(kw_idx, open_idx, close_idx, kind)."""
    toks = src.toks
    o = toks.index(body_open_tok)
    c = toks.index(body_close_tok)
    loops = []
    i = o + 1
    while i < c:
        t = toks[i]
        if t.kind == 'ident' and t.text in ('loop', 'while', 'for'):
            # `for` in `for<'a>` (HRTB) cannot appear in statement position in our sources
            d = t.depth
            j = i + 1
            while j < c and not (toks[j].text == '{' and toks[j].depth == d):
                j += 1
            if j >= c:
                raise LostAnchor('loop without body at line %d' % src.line_of(t.start))
            loops.append({'kw': i, 'open': j, 'close': match_close(toks, j), 'kind': t.text})
        i += 1
    return loops


# --------------------------------------------------------------------------
# rewrite rules (closed list; see DESIGN.md 2.1)
# --------------------------------------------------------------------------

def rule_R1(piece, toks):
    """drop `pub` / `pub(crate)` / `pub(super)`"""
    i = 0
    while i < len(toks):
        t = toks[i]
        if t.kind == 'ident' and t.text == 'pub':
            e = t.end
            if i + 1 < len(toks) and toks[i + 1].text == '(' and toks[i + 2].text in ('crate', 'super', 'self', 'in'):
                k = i + 1
                while toks[k].text != ')':
                    k += 1
                e = toks[k].end
            # swallow following whitespace
            while piece.src.text[e] == ' ':
                e += 1
            piece.replace(t.start, e, '', 'R1')
        i += 1


def rule_R2(piece, toks):
    """drop attributes `#[...]` inside the item (doc comments are not tokens here)"""
    i = 0
    while i < len(toks):
        t = toks[i]
        if t.text == '#' and i + 1 < len(toks) and toks[i + 1].text == '[':
            # find matching ]
            d = toks[i + 1].depth
            k = i + 2
            while not (toks[k].text == ']' and toks[k].depth == d):
                k += 1
            piece.replace(t.start, toks[k].end, '', 'R2')
            i = k
        i += 1


def rule_R3(piece, toks, impl_info, src):
    """`Self::Item` -> the type given by `type Item = X;` in the same impl block"""
    if impl_info is None:
        return
    o, c, hdr = impl_info
    alltoks = src.toks
    item_ty = None
    for k in range(o + 1, c):
        if alltoks[k].text == 'type' and alltoks[k + 1].text == 'Item' and alltoks[k].depth == 1:
            m = k + 3
            e = m
            while alltoks[e].text != ';':
                e += 1
            item_ty = src.text[alltoks[m].start:alltoks[e - 1].end]
    for i, t in enumerate(toks):
        if t.text == 'Self' and i + 2 < len(toks) and toks[i + 1].text == '::' and toks[i + 2].text == 'Item':
            if item_ty is None:
                raise LostAnchor('R3: no `type Item` in impl block')
            piece.replace(t.start, toks[i + 2].end, item_ty, 'R3')


def _top_level_has_range(toks):
    if not toks:
        return False
    d = toks[0].depth
    return any(t.text in ('..', '..=') and t.depth == d for t in toks)


def rule_R5(piece, toks, loops, src, loop_specs):
    """for PAT in EXPR { B }  (EXPR not a range)  ->
       { let mut verif_itN = EXPR; loop <spec> { match verif_itN.next() { Some(PAT) => { B } None => { break; } } } }"""
    alltoks = src.toks
    for n, lp in enumerate(loops, 1):
        if lp['kind'] != 'for':
            continue
        kw = lp['kw']
        # find `in` at depth of kw
        d = alltoks[kw].depth
        k = kw + 1
        while not (alltoks[k].text == 'in' and alltoks[k].depth == d):
            k += 1
        expr = alltoks[k + 1:lp['open']]
        if _top_level_has_range(expr):
            continue
        if _is_idiom_for(src, alltoks, kw, k, lp):
            continue
        etext0 = src.text[expr[0].start:expr[-1].end]
        if re.fullmatch(r'[\w\.]+(\.as_bytes\(\))?\.iter\(\)', etext0) or re.fullmatch(r'[\w\.]+\.as_bytes\(\)', etext0):
            continue  # slice iterator: natively supported by Verus (ghost label via R6)
        pat = src.text[alltoks[kw + 1].start:alltoks[k - 1].end]
        etext = src.text[expr[0].start:expr[-1].end]
        it = 'verif_it%d' % n
        spec = loop_specs.get((n, 'header'), '')
        pre = loop_specs.get((n, 'pre-next'), '')
        on_none = loop_specs.get((n, 'on-none'), '')
        head = '{ let mut %s = %s; loop %s{ %s match %s.next() { Some(%s) => ' % (it, etext, spec + ' ' if spec else '', pre + ' ' if pre else '', it, pat)
        piece.replace(alltoks[kw].start, alltoks[lp['open']].start, head, 'R5')
        piece.replace(alltoks[lp['close']].end, alltoks[lp['close']].end, ' None => { %sbreak; } } } }' % (on_none + ' ' if on_none else ''), 'R5')
        lp['r5'] = True


IDIOM_ENUM = re.compile(r'for \((\w+), &(\w+)\) in ([\w\.]+)\.iter\(\)\.enumerate\(\) \{')
IDIOM_ZIP = re.compile(r'for \((\w+), (\w+)\) in ([\w\.]+)\.iter\(\)\.zip\(([\w\.]+)\.iter\(\)\) \{')
IDIOM_MAPITER = re.compile(r'for \(&(\w+), &(\w+)\) in ([\w\.]+)\.iter\(\) \{')
IDIOM_BYTES = re.compile(r'for (\w+) in ([\w\.]+(?:\.as_bytes\(\))?)(?:\.iter\(\))? \{')


def _for_header_text(src, alltoks, lp):
    return src.text[alltoks[lp['kw']].start:alltoks[lp['open']].end]


def _is_idiom_for(src, alltoks, kw, k, lp):
    h = re.sub(r'\s+', ' ', _for_header_text(src, alltoks, lp))
    return bool(IDIOM_ENUM.fullmatch(h) or IDIOM_ZIP.fullmatch(h) or IDIOM_MAPITER.fullmatch(h))


def rule_R6(piece, loops, src):
    """`for _ in RANGE {` -> `for verif_iN in RANGE {`: the anonymous loop variable of a range loop gets
    a name so that the loop invariant can mention the iteration count (the body cannot refer to it).
    The invariant itself is ghost text placed by the generic loop-header insertion."""
    alltoks = src.toks
    for n, lp in enumerate(loops, 1):
        if lp['kind'] != 'for':
            continue
        t = alltoks[lp['kw'] + 1]
        if t.text == '_' and alltoks[lp['kw'] + 2].text == 'in':
            piece.replace(t.start, t.end, 'verif_i%d' % n, 'R6')
        elif not lp.get('r5') and not lp.get('header_done'):
            # ghost label for the iterator so that the invariant can mention its position (ghost only)
            kw = lp['kw']
            d = alltoks[kw].depth
            k = kw + 1
            while not (alltoks[k].text == 'in' and alltoks[k].depth == d):
                k += 1
            expr = alltoks[k + 1:lp['open']]
            if not _top_level_has_range(expr):
                piece.insert(alltoks[k].end, ' verif_it%d:' % n, 'ghost:loop%d-label' % n)


def rule_R7(piece, src, start, end):
    """ref patterns: `let &x = E;` -> `let x = *E;` ; `if let Some(&x) = E {` -> `if let Some(verif_ref_x) = E { let x = *verif_ref_x;`"""
    text = src.text
    for m in re.finditer(r'let &(\w+) = ([^;]+);', text[start:end]):
        s, e = start + m.start(), start + m.end()
        piece.replace(s, e, 'let %s = *%s;' % (m.group(1), m.group(2)), 'R7')
    for m in re.finditer(r'if let Some\(&(\w+)\) = ([^{]+?) \{', text[start:end]):
        s, e = start + m.start(), start + m.end()
        x = m.group(1)
        piece.replace(s, e, 'if let Some(verif_ref_%s) = %s { let %s = *verif_ref_%s;' % (x, m.group(2), x, x), 'R7')


def rule_R8(piece, src, start, end, loops, loop_specs, r9=False):
    """idiom stubs (each target is an external_body fn / index loop with a stated std contract)"""
    text = src.text
    seg = text[start:end]
    for m in re.finditer(r'([\w\.]+)\.chars\(\)\.rev\(\)\.collect\(\)', seg):
        piece.replace(start + m.start(), start + m.end(), 'verif_rev_string(&%s)' % m.group(1), 'R8:rev_string')
    for m in re.finditer(r'([\w\.]+)\.iter_mut\(\)\.for_each\(\|(\w+)\| \*\2 /= ([^;]+)\);', seg):
        d = r9_text(m.group(3)) if r9 else m.group(3)
        piece.replace(start + m.start(), start + m.end(), 'verif_div_all(&mut %s, %s);' % (m.group(1), d), 'R8:div_all')
    for m in re.finditer(r'(\w+)\.clone_from\(&(\w+)\)', seg):
        piece.replace(start + m.start(), start + m.end(), 'verif_clone_from(&mut %s, &%s)' % (m.group(1), m.group(2)), 'R8:clone_from')
    for m in re.finditer(r'([\w\.]+(?:\(\))?)\.join\(&([\w\.]+)\) \+ "\\n"', seg):
        piece.replace(start + m.start(), start + m.end(), 'verif_join_nl(&%s, &%s)' % (m.group(1), m.group(2)), 'R8:join_nl')
    for m in re.finditer(r'\(([\w\.]+) as f64 / ([\w\.]+) as f64\)\.floor\(\) as usize', seg):
        piece.replace(start + m.start(), start + m.end(), 'verif_floor_div(%s, %s)' % (m.group(1), m.group(2)), 'R8:floor_div')
    for m in re.finditer(r'Vec::from_iter\((\w+)\)', seg):
        piece.replace(start + m.start(), start + m.end(), 'verif_vec_from_set(%s)' % m.group(1), 'R8:vec_from_set')
    for m in re.finditer(r'(\[\s*(?:\([^\]]*?)\])\s*\.iter\(\)\s*\.cloned\(\)\s*\.collect\(\)', seg, re.S):
        piece.replace(start + m.start(), start + m.end(), 'verif_map_from_pairs(&%s)' % m.group(1), 'R8:map_from_pairs')
    alltoks = src.toks
    for n, lp in enumerate(loops, 1):
        if lp['kind'] != 'for':
            continue
        hs, he = alltoks[lp['kw']].start, alltoks[lp['open']].end
        h = re.sub(r'\s+', ' ', text[hs:he])
        spec = loop_specs.get((n, 'header'), '')
        sp = (' ' + spec + ' ') if spec else ' '
        m = IDIOM_ENUM.fullmatch(h)
        if m:
            i, x, v = m.groups()
            piece.replace(hs, he, 'for %s in 0..%s.len()%s{ let %s = %s[%s];' % (i, v, sp, x, v, i), 'R8:enumerate')
            lp['header_done'] = True
            continue
        m = IDIOM_ZIP.fullmatch(h)
        if m:
            a, b, x, y = m.groups()
            piece.replace(hs, he, 'for verif_i%d in 0..verif_min_len(%s.len(), %s.len())%s{ let %s = &%s[verif_i%d]; let %s = &%s[verif_i%d];'
                          % (n, x, y, sp, a, x, n, b, y, n), 'R8:zip')
            lp['header_done'] = True
            continue
        m = IDIOM_MAPITER.fullmatch(h)
        if m:
            k, v, mp = m.groups()
            piece.replace(hs, he, 'let verif_keys%d = verif_map_keys(&%s); for verif_i%d in 0..verif_keys%d.len()%s{ let %s = verif_keys%d[verif_i%d]; let %s = verif_map_get(&%s, %s);'
                          % (n, mp, n, n, sp, k, n, n, v, mp, k), 'R8:map_iter')
            lp['header_done'] = True
            continue


def rule_R10(piece, src, start, end):
    """error-value abstraction: `return Err(EXPR);` where EXPR builds a String / PyErr -> `return Err(verif_err());`
    (the error payload is irrelevant to the contracts; only the Ok/Err distinction is specified)"""
    for m in re.finditer(r'return Err\((?:"[^"]*"\.to_string\(\)|PyValueError::new_err\("[^"]*"\))\);', src.text[start:end]):
        piece.replace(start + m.start(), start + m.end(), 'return Err(verif_err());', 'R10')


R9_LITS = {'0_f64': 'F64::lit_0()', '1_f64': 'F64::lit_1()', '2.0': 'F64::lit_2()', '0.0': 'F64::lit_0()'}


def r9_text(text):
    """R9 applied to a text fragment captured by another rule"""
    text = re.sub(r'\bf64\b', 'F64', text)
    for k, v in R9_LITS.items():
        text = re.sub(r'(?<![\w.])%s(?![\w.])' % re.escape(k), v, text)
    return text


def rule_R9(piece, toks):
    """float abstraction: f64 -> F64, float literals -> F64::lit_*(), f64::max -> F64::max"""
    covered = [(e[0], e[1]) for e in piece.edits if e[1] > e[0]]
    for i, t in enumerate(toks):
        if any(a <= t.start and t.end <= b for (a, b) in covered):
            continue
        if t.kind == 'ident' and t.text == 'f64':
            piece.replace(t.start, t.end, 'F64', 'R9')
        elif t.kind == 'num' and t.text in R9_LITS:
            piece.replace(t.start, t.end, R9_LITS[t.text], 'R9')
        elif t.kind == 'num' and ('f64' in t.text or re.fullmatch(r'[0-9]+\.[0-9]+', t.text)):
            raise LostAnchor('R9: float literal %s has no abstraction' % t.text)



def apply_rewrite_all(piece, src, start, end, sections):
    """//@rewrite-all /regex/ [dotall]   body = replacement text (\\1.. allowed).  A unit-specific, logged
    rewrite (M3: code that is dropped and replaced by a stub call).  At least one match is required."""
    for k, v in sections:
        if not k.startswith('rewrite-all '):
            continue
        spec = k[len('rewrite-all '):].strip()
        flags = 0
        optional = False
        if spec.endswith(' optional'):
            # an equivalent spelling that the code may or may not use (normalised to the form the contract is written for)
            optional = True
            spec = spec[:-9].strip()
        if spec.endswith(' dotall'):
            flags = re.S
            spec = spec[:-7].strip()
        m = re.match(r'/(.*)/$', spec, re.S)
        if not m:
            raise ValueError('bad rewrite-all ' + k)
        rx = re.compile(m.group(1), flags)
        ms = list(rx.finditer(src.text, start, end))
        if not ms:
            if optional:
                continue
            raise LostAnchor('rewrite-all /%s/: no match' % rx.pattern)
        for mm in ms:
            piece.replace(mm.start(), mm.end(), mm.expand(v.strip('\n')), 'M3:rewrite /%s/' % rx.pattern)


def clap_range(relfile, struct, field, expr):
    """`@@CLAP_RANGE(file, Struct.field, expr)@@`: the value range clap enforces for a field, read from the
    `value_parser = ... .range(a..=b)` attribute text of the field in the current source; expands to a Verus
    boolean over `expr` (`true` when the attribute has no range)."""
    src = Source(relfile)
    s, e = find_struct(src, struct)
    text = src.text[s:e]
    m = re.search(r'((?:\s*#\[[^\n]*\]\s*\n|\s*///[^\n]*\n)*)\s*pub\s+%s\s*:' % re.escape(field), text)
    if not m:
        raise LostAnchor('clap range: field %s.%s not found' % (struct, field))
    attrs = m.group(1)
    r = re.search(r'\.range\(\s*(\d*)\s*\.\.(=?)\s*(\d*)\s*\)', attrs)
    if not r:
        return 'true'
    parts = []
    if r.group(1):
        parts.append('%s <= %s' % (r.group(1), expr))
    if r.group(3):
        parts.append('%s %s %s' % (expr, '<=' if r.group(2) else '<', r.group(3)))
    return '(' + ' && '.join(parts or ['true']) + ')'

# --------------------------------------------------------------------------
# directive parsing
# --------------------------------------------------------------------------

def parse_template(text):
    """split template into chunks: ('text', str) | ('extract', header, sections)"""
    lines = text.split('\n')
    chunks = []
    buf = []
    i = 0
    while i < len(lines):
        ln = lines[i]
        s = ln.strip()
        if s.startswith('//@extract '):
            if buf:
                chunks.append(('text', '\n'.join(buf)))
                buf = []
            header = s[len('//@extract '):]
            sections = []
            cur = None
            i += 1
            while True:
                if i >= len(lines):
                    raise ValueError('unterminated //@extract ' + header)
                s2 = lines[i].strip()
                if s2 == '//@end':
                    break
                if s2.startswith('//@'):
                    cur = [s2[3:].strip(), []]
                    sections.append(cur)
                elif cur is not None:
                    cur[1].append(lines[i])
                i += 1
            chunks.append(('extract', header, [(k, '\n'.join(v)) for k, v in sections]))
        else:
            buf.append(ln)
        i += 1
    if buf:
        chunks.append(('text', '\n'.join(buf)))
    return chunks


def _regex_anchor(spec):
    m = re.match(r'/(.*)/\s*(?:#(\d+))?\s*$', spec)
    if not m:
        raise ValueError('bad anchor ' + spec)
    return re.compile(m.group(1)), int(m.group(2) or 0)


def _find_match(src, start, end, rx, k, what):
    ms = list(rx.finditer(src.text, start, end))
    if k == 0:
        if len(ms) != 1:
            raise LostAnchor('%s /%s/: %d matches (need exactly 1)' % (what, rx.pattern, len(ms)))
        return ms[0]
    if len(ms) < k:
        raise LostAnchor('%s /%s/ #%d: only %d matches' % (what, rx.pattern, k, len(ms)))
    return ms[k - 1]


# --------------------------------------------------------------------------
# the extraction of one directive
# --------------------------------------------------------------------------

def do_extract(header, sections, report):
    parts = header.split()
    kind = parts[0]
    opts = {}
    pos = []
    for p in parts[1:]:
        if '=' in p and not p.startswith('/'):
            k, v = p.split('=', 1)
            opts[k] = v
        else:
            pos.append(p)
    relfile, name = pos[0], pos[1]
    rules = [r for r in opts.get('rules', '').split(',') if r]
    src = Source(relfile)
    entry = {'kind': kind, 'file': relfile, 'name': name, 'rules_requested': rules}

    if kind in ('const', 'type'):
        s, e = find_simple_item(src, kind, name)
        piece = Piece(src, s, e)
        toks = toks_in(src, s, e)
        if 'R9' in rules:
            rule_R9(piece, toks)
        out = piece.render()
        sec = dict(sections)
        if kind == 'const' and ('sig' in sec or 'body-start' in sec):
            # ghost wrapper for a constant whose initialiser needs a hint:  const N: T = E;  ->
            #   exec const N: T <sig> { <proof> E }      (same expression, ghost text only)
            m = re.match(r'const\s+(\w+)\s*:\s*([^=]+?)\s*=\s*(.*);\s*$', out, re.S)
            if not m:
                raise LostAnchor('const %s: unexpected shape' % name)
            out = 'exec const %s: %s\n%s\n{\n%s\n    %s\n}' % (m.group(1), m.group(2), sec.get('sig', ''), sec.get('body-start', ''), m.group(3))
        _finish(entry, src, s, e, piece, report)
        return out

    if kind == 'struct':
        s, e = find_struct(src, name)
        piece = Piece(src, s, e)
        toks = toks_in(src, s, e)
        rule_R1(piece, toks)
        rule_R2(piece, toks)
        if 'R9' in rules:
            rule_R9(piece, toks)
        out = piece.render()
        for k, v in sections:
            if k.startswith('attr '):
                out = k[5:] + '\n' + out
        _finish(entry, src, s, e, piece, report)
        return out

    if kind in ('fn', 'method'):
        impl_info = None
        if kind == 'method':
            ty, fname = name.split('::')
            (first, o, c), impl_info = find_method(src, ty, fname)
        else:
            hits = find_fn(src, name, depth=0)
            if len(hits) != 1:
                raise LostAnchor('fn %s: %d matches in %s' % (name, len(hits), relfile))
            first, o, c = hits[0]
        return _extract_fn(src, first, o, c, impl_info, rules, sections, opts, entry, report)

    if kind == 'stmts':
        return _extract_stmts(src, name, rules, sections, opts, entry, report)

    raise ValueError('unknown extract kind ' + kind)


SHAPE_WORDS = {'loop', 'while', 'for', 'if', 'else', 'match', 'return', 'break', 'continue'}


def _finish(entry, src, s, e, piece, report):
    entry['line_start'] = src.line_of(s)
    entry['line_end'] = src.line_of(e)
    entry['sha256'] = hashlib.sha256(src.text[s:e].encode()).hexdigest()
    entry['rewrites'] = piece.log
    entry['ghost_insertions'] = sorted({ed[4] for ed in piece.edits if ed[4].startswith('ghost:')})
    # control structure of the extracted source text: the proof annotations (loop invariants, ghost blocks) are anchored to it
    entry['shape'] = ' '.join(t.text for t in toks_in(src, s, e) if t.text in SHAPE_WORDS)
    report.append(entry)


def _extract_fn(src, first, o, c, impl_info, rules, sections, opts, entry, report):
    toks = src.toks
    s, e = toks[first].start, toks[c].end
    piece = Piece(src, s, e)
    ftoks = toks[first:c + 1]
    body_open, body_close = toks[o], toks[c]

    loop_specs = {}
    sec = {}
    anchors = []
    attrs = []
    returns = None
    for k, v in sections:
        if k.startswith('returns'):
            returns = k.split()[1]
        elif k.startswith('attr '):
            attrs.append(k[5:])
        elif k in ('sig', 'body-start', 'body-end'):
            sec[k] = v
        elif k.startswith('loop '):
            ps = k.split()
            n = int(ps[1])
            where = ps[2] if len(ps) > 2 else 'header'
            loop_specs[(n, where)] = v
        elif k.startswith('after-stmt ') or k.startswith('before-line ') or k.startswith('after-line '):
            w, spec = k.split(' ', 1)
            anchors.append((w, spec, v))
        elif k.startswith('rewrite-all '):
            pass
        else:
            raise ValueError('unknown section //@' + k)

    loops = find_loops(src, body_open, body_close)
    for (n, where) in loop_specs:
        if n > len(loops):
            raise LostAnchor('loop %d: function %s has only %d loops' % (n, entry['name'], len(loops)))
    want_loops = opts.get('loops')
    if want_loops is not None and int(want_loops) != len(loops):
        raise LostAnchor('function %s has %d loops, template expects %s' % (entry['name'], len(loops), want_loops))

    apply_rewrite_all(piece, src, s, e, sections)
    if 'R1' in rules:
        rule_R1(piece, ftoks[:o - first])
    if 'R2' in rules:
        rule_R2(piece, ftoks)
    if 'R3' in rules:
        rule_R3(piece, ftoks, impl_info, src)
    if 'R8' in rules:
        rule_R8(piece, src, s, e, loops, loop_specs, 'R9' in rules)
    if 'R5' in rules:
        rule_R5(piece, ftoks, loops, src, loop_specs)
    if 'R6' in rules:
        rule_R6(piece, loops, src)
    if 'R7' in rules:
        rule_R7(piece, src, s, e)
    if 'R9' in rules:
        rule_R9(piece, ftoks)
    if 'R10' in rules:
        rule_R10(piece, src, s, e)

    # R4 + signature ghost text
    sig_toks = toks[first:o]
    arrow = None
    for t in sig_toks:
        if t.text == '->' and t.depth == toks[first].depth:
            arrow = t
    if returns:
        if arrow is None:
            raise LostAnchor('returns: function %s has no return type' % entry['name'])
        # the return type ends before `where` or the body
        rt_end = toks[o - 1].end
        for t in sig_toks:
            if t.text == 'where' and t.depth == toks[first].depth and t.start > arrow.start:
                rt_end = toks[toks.index(t) - 1].end
        piece.insert(arrow.end, ' (%s:' % returns, 'ghost:returns')
        piece.insert(rt_end, ')', 'ghost:returns')
    if 'sig' in sec:
        piece.insert(toks[o].start, '\n' + sec['sig'] + '\n', 'ghost:sig')
    if 'body-start' in sec:
        piece.insert(toks[o].end, '\n' + sec['body-start'] + '\n', 'ghost:body-start')
    if 'body-end' in sec:
        piece.insert(toks[c].start, '\n' + sec['body-end'] + '\n', 'ghost:body-end')

    for (n, where), v in loop_specs.items():
        lp = loops[n - 1]
        if where in ('pre-next', 'on-none'):
            if not lp.get('r5'):
                raise LostAnchor('loop %d %s: only valid on a loop rewritten by R5' % (n, where))
            continue
        if where == 'header':
            if lp.get('r5') or lp.get('header_done'):
                continue  # already placed by the rewrite
            piece.insert(toks[lp['open']].start, '\n' + v + '\n', 'ghost:loop%d' % n)
        elif where == 'body-start':
            piece.insert(toks[lp['open']].end, '\n' + v + '\n', 'ghost:loop%d-body-start' % n)
        elif where == 'body-end':
            piece.insert(toks[lp['close']].start, '\n' + v + '\n', 'ghost:loop%d-body-end' % n)
        elif where == 'before':
            piece.insert(toks[lp['kw']].start, '\n' + v + '\n', 'ghost:loop%d-before' % n)
        elif where == 'after':
            piece.insert(toks[lp['close']].end, '\n' + v + '\n', 'ghost:loop%d-after' % n)
        else:
            raise ValueError('bad loop anchor ' + where)

    for (w, spec, v) in anchors:
        rx, k = _regex_anchor(spec)
        m = _find_match(src, toks[o].end, toks[c].start, rx, k, w)
        if w == 'after-stmt':
            # token containing the match start
            mt = None
            for t in toks[o:c + 1]:
                if t.start <= m.start() < t.end or t.start >= m.start():
                    mt = t
                    break
            d = mt.depth
            idx = toks.index(mt)
            j = idx
            while j < c and not (toks[j].text == ';' and toks[j].depth == d):
                j += 1
            if j >= c:
                raise LostAnchor('after-stmt /%s/: no statement end' % rx.pattern)
            piece.insert(toks[j].end, '\n' + v + '\n', 'ghost:after-stmt /%s/' % rx.pattern)
        elif w == 'before-line':
            ls = src.text.rfind('\n', 0, m.start()) + 1
            piece.insert(ls, v + '\n', 'ghost:before-line /%s/' % rx.pattern)
        elif w == 'after-line':
            le = src.text.find('\n', m.end())
            piece.insert(le + 1, v + '\n', 'ghost:after-line /%s/' % rx.pattern)

    out = piece.render()
    if attrs:
        out = '\n'.join(attrs) + '\n' + out
    entry['loops'] = len(loops)
    if 'sig' in sec:
        entry['contract'] = re.sub(r'\s+', ' ', sec['sig']).strip()[:900]
    _finish(entry, src, s, e, piece, report)
    entry['_consts_used'] = sorted({t.text for t in ftoks if t.kind == 'ident' and re.fullmatch(r'[A-Z][A-Z0-9_]{2,}', t.text)})
    entry['_src'] = src
    return out


def _extract_stmts(src, name, rules, sections, opts, entry, report):
    """M3: lift a contiguous statement range out of function `name` (TYPE::fn or fn).
    opts: from=/re/ (first statement = the one whose first line matches), to=/re/ (last statement,
    inclusive: up to the end of that statement / block).  The caller's template supplies the
    wrapping `fn` header and the closing brace."""
    if '::' in name:
        ty, fname = name.split('::')
        (first, o, c), impl_info = find_method(src, ty, fname)
    else:
        hits = find_fn(src, name, depth=0)
        if len(hits) != 1:
            raise LostAnchor('fn %s: %d matches' % (name, len(hits)))
        first, o, c = hits[0]
    toks = src.toks
    frm = None
    to = None
    for k, v in sections:
        if k.startswith('from '):
            frm = _regex_anchor(k[5:])
        elif k.startswith('to '):
            to = _regex_anchor(k[3:])
    if frm is None or to is None:
        raise ValueError('stmts needs //@from and //@to')
    m1 = _find_match(src, toks[o].end, toks[c].start, frm[0], frm[1], 'from')
    s = src.text.rfind('\n', 0, m1.start()) + 1
    m2 = _find_match(src, m1.start(), toks[c].start, to[0], to[1], 'to')
    # end of the statement containing m2: next `;` or `}` closing a block opened after m2 at the depth of m2
    mt = None
    for t in toks[o:c + 1]:
        if t.start >= m2.start():
            mt = t
            break
    d = mt.depth
    j = toks.index(mt)
    e = None
    while j < c:
        t = toks[j]
        if t.depth == d and t.text == ';':
            e = t.end
            break
        if t.depth == d and t.text == '{':
            k2 = match_close(toks, j)
            # block statement (if/for/loop/match): ends here unless followed by else / ; / .
            nxt = toks[k2 + 1]
            if nxt.text == 'else':
                j = k2 + 1
                continue
            if nxt.text in (';',):
                e = nxt.end
                break
            if nxt.text in ('.', '?'):
                j = k2 + 1
                continue
            e = toks[k2].end
            break
        j += 1
    if e is None:
        raise LostAnchor('stmts: cannot find end of statement for /%s/' % to[0].pattern)
    piece = Piece(src, s, e)
    stoks = toks_in(src, s, e)
    loop_specs = {}
    anchors = []
    for k, v in sections:
        if k.startswith('loop '):
            ps = k.split()
            loop_specs[(int(ps[1]), ps[2] if len(ps) > 2 else 'header')] = v
        elif k.startswith('after-stmt ') or k.startswith('before-line ') or k.startswith('after-line '):
            w, spec = k.split(' ', 1)
            anchors.append((w, spec, v))
    # loops inside the range
    loops = []
    if stoks:
        i0 = toks.index(stoks[0])
        i1 = toks.index(stoks[-1])
        i = i0
        while i <= i1:
            t = toks[i]
            if t.kind == 'ident' and t.text in ('loop', 'while', 'for'):
                d2 = t.depth
                j = i + 1
                while j <= i1 and not (toks[j].text == '{' and toks[j].depth == d2):
                    j += 1
                if j <= i1:
                    loops.append({'kw': i, 'open': j, 'close': match_close(toks, j), 'kind': t.text})
            i += 1
    apply_rewrite_all(piece, src, s, e, sections)
    if 'R8' in rules:
        rule_R8(piece, src, s, e, loops, loop_specs, 'R9' in rules)
    if 'R5' in rules:
        rule_R5(piece, stoks, loops, src, loop_specs)
    if 'R7' in rules:
        rule_R7(piece, src, s, e)
    if 'R9' in rules:
        rule_R9(piece, stoks)
    for (n, where), v in loop_specs.items():
        if n > len(loops):
            raise LostAnchor('stmts loop %d: only %d loops in range' % (n, len(loops)))
        lp = loops[n - 1]
        if where in ('pre-next', 'on-none'):
            if not lp.get('r5'):
                raise LostAnchor('loop %d %s: only valid on a loop rewritten by R5' % (n, where))
            continue
        if where == 'header':
            if lp.get('r5') or lp.get('header_done'):
                continue
            piece.insert(toks[lp['open']].start, '\n' + v + '\n', 'ghost:loop%d' % n)
        elif where == 'body-start':
            piece.insert(toks[lp['open']].end, '\n' + v + '\n', 'ghost:loop%d-body-start' % n)
        elif where == 'body-end':
            piece.insert(toks[lp['close']].start, '\n' + v + '\n', 'ghost:loop%d-body-end' % n)
        elif where == 'before':
            piece.insert(toks[lp['kw']].start, '\n' + v + '\n', 'ghost:loop%d-before' % n)
        elif where == 'after':
            piece.insert(toks[lp['close']].end, '\n' + v + '\n', 'ghost:loop%d-after' % n)
        else:
            raise ValueError('bad loop anchor ' + where)
    for (w, spec, v) in anchors:
        rx, k = _regex_anchor(spec)
        m = _find_match(src, s, e, rx, k, w)
        if w == 'before-line':
            ls = src.text.rfind('\n', 0, m.start()) + 1
            piece.insert(max(ls, s), v + '\n', 'ghost:before-line /%s/' % rx.pattern)
        elif w == 'after-line':
            le = src.text.find('\n', m.end())
            piece.insert(min(le + 1, e), v + '\n', 'ghost:after-line /%s/' % rx.pattern)
        elif w == 'after-stmt':
            mt = None
            for t in stoks:
                if t.start >= m.start():
                    mt = t
                    break
            d3 = mt.depth
            j = toks.index(mt)
            while toks[j].end <= e and not (toks[j].text == ';' and toks[j].depth == d3):
                j += 1
            piece.insert(toks[j].end, '\n' + v + '\n', 'ghost:after-stmt /%s/' % rx.pattern)
    out = piece.render()
    entry['lifted_from'] = name
    entry['loops'] = len(loops)
    _finish(entry, src, s, e, piece, report)
    return out


# --------------------------------------------------------------------------
# driver
# --------------------------------------------------------------------------

def build_unit(template_path, out_path, report_path, defines=None):
    with open(template_path) as f:
        text = f.read()
    # includes: //@include prelude/x.vrs
    # //@define NAME text...   : textual macro (whole-word) applied to the bodies of later //@include lines
    defines_txt = {}
    def inc(m):
        p = os.path.join(os.path.dirname(template_path), m.group(1))
        with open(p) as g:
            body = g.read()
        for k, v in defines_txt.items():
            body = re.sub(r'\b%s\b' % re.escape(k), lambda _m, v=v: v, body)
        # optional textual parameters:  //@include file A=expr B=expr   (whole-word substitution)
        for kv in (m.group(2) or '').split():
            k, v = kv.split('=', 1)
            body = re.sub(r'\b%s\b' % re.escape(k), v.replace('\\', '\\\\'), body)
        return body
    def process_includes(text):
        out_lines = []
        for ln in text.split('\n'):
            md = re.match(r'^[ \t]*//@define (\w+)(?: (.*))?$', ln)
            if md:
                defines_txt[md.group(1)] = (md.group(2) or '').strip()
                continue
            mi = re.match(r'^[ \t]*//@include (\S+)((?:[ \t]+\w+=\S+)*)[ \t]*$', ln)
            if mi:
                out_lines.append(process_includes(inc(mi)))
                continue
            out_lines.append(ln)
        return '\n'.join(out_lines)
    text = process_includes(text)
    # conditional blocks: //@if NAME ... //@endif
    defines = defines or set()
    def cond(m):
        return m.group(2) if m.group(1) in defines else ''
    text = re.sub(r'^[ \t]*//@if (\w+)[ \t]*\n(.*?)^[ \t]*//@endif[ \t]*$', cond, text, flags=re.M | re.S)
    def clap(m):
        return clap_range(m.group(1).strip(), m.group(2).strip().split('.')[0], m.group(2).strip().split('.')[1], m.group(3).strip())
    text = re.sub(r'@@CLAP_RANGE\(([^,]+),([^,]+),([^)]+)\)@@', clap, text)
    report = []
    out = []
    # //@pin <fn|method|const|struct> <file> <name>        or   //@pin region <file> <fn> /from/ /to/
    # Text that the unit's stubs / assumed contracts stand for.  Nothing is emitted; the SHA-256 of the
    # current text is reported and compared with the recorded one by the runner (a changed pin means
    # "the assumption was written for other text": undecided, never an alarm).
    pins = []
    def pin(m):
        parts = m.group(1).split()
        kind, relfile, name = parts[0], parts[1], parts[2]
        src = Source(relfile)
        if kind == 'fn':
            hits = find_fn(src, name, depth=0)
            if len(hits) != 1:
                raise LostAnchor('pin fn %s: %d matches' % (name, len(hits)))
            first, o, c = hits[0]
            txt = src.text[src.toks[first].start:src.toks[c].end]
        elif kind == 'method':
            ty, fname = name.split('::')
            (first, o, c), _ = find_method(src, ty, fname)
            txt = src.text[src.toks[first].start:src.toks[c].end]
        elif kind == 'struct':
            s0, e0 = find_struct(src, name)
            txt = src.text[s0:e0]
        elif kind == 'methods':
            # the set of methods (and trait impls) of a type: a new method such as an `nth` override next to a verified
            # `next` changes what callers get without touching any verified text
            blocks = impl_blocks(src, name)
            if not blocks:
                raise LostAnchor('pin methods %s: no impl block in %s' % (name, relfile))
            parts2 = []
            for (o2, c2, hdr) in blocks:
                fns = [src.toks[i + 1].text for i in range(o2, c2) if src.toks[i].kind == 'ident' and src.toks[i].text == 'fn'
                       and src.toks[i].depth == src.toks[o2].depth + 1 and src.toks[i + 1].kind == 'ident']
                parts2.append('impl ' + ' '.join(h.text for h in hdr) + ' { ' + ' '.join('fn ' + f for f in fns) + ' }')
            txt = ' ; '.join(parts2)
        elif kind == 'const':
            s0, e0 = find_simple_item(src, 'const', name)
            txt = src.text[s0:e0]
        elif kind == 'region':
            rest = m.group(1).split(None, 3)[3]
            mm = re.match(r'/(.*?)/\s+/(.*?)/\s*$', rest)
            if not mm:
                raise ValueError('bad pin region ' + m.group(1))
            if '::' in name:
                ty, fname = name.split('::')
                (first, o, c), _ = find_method(src, ty, fname)
            else:
                hits = find_fn(src, name, depth=0)
                if len(hits) != 1:
                    raise LostAnchor('pin region: fn %s: %d matches' % (name, len(hits)))
                first, o, c = hits[0]
            a = re.search(mm.group(1), src.text[src.toks[o].end:src.toks[c].start])
            if not a:
                raise LostAnchor('pin region %s: start /%s/ not found' % (name, mm.group(1)))
            st = src.toks[o].end + a.start()
            b = re.search(mm.group(2), src.text[st:src.toks[c].start], re.S)
            if not b:
                raise LostAnchor('pin region %s: end /%s/ not found' % (name, mm.group(2)))
            txt = src.text[st:st + b.end()]
        else:
            raise ValueError('unknown pin kind ' + kind)
        norm = re.sub(r'\s+', ' ', txt).strip()
        pins.append({'kind': 'pin', 'file': relfile, 'name': '%s %s' % (kind, m.group(1).split(None, 2)[2]),
                     'sha256': hashlib.sha256(norm.encode()).hexdigest(), 'rules_requested': [], 'rewrites': [], 'ghost_insertions': [],
                     'line_start': 0, 'line_end': 0})
        return ''
    text = re.sub(r'^[ \t]*//@pin (.+?)[ \t]*$', pin, text, flags=re.M)
    for ch in parse_template(text):
        if ch[0] == 'text':
            out.append(ch[1])
        else:
            out.append('// ---- extracted: %s ----' % ch[1])
            n_before = len(report)
            out.append(do_extract(ch[1], ch[2], report))
            for it in report[n_before:]:
                it['marker'] = '// ---- extracted: %s ----' % ch[1]
            out.append('// ---- end extracted ----')
    result = '\n'.join(out)
    # constants of the same source file that an extracted function refers to but the unit does not define
    # (e.g. a helper constant introduced next to the function) are extracted verbatim as well
    extra = []
    for it in report:
        src = it.pop('_src', None)
        for c in it.pop('_consts_used', []):
            if src is None or re.search(r'\bconst\s+%s\b' % c, result) or any(c == x[0] for x in extra):
                continue
            try:
                s0, e0 = find_simple_item(src, 'const', c)
            except LostAnchor:
                continue
            extra.append((c, src.text[s0:e0], src.relpath, src.line_of(s0)))
    if extra:
        block = '\n'.join('// ---- auto-extracted const %s (%s:%d) ----\n%s' % (c, f, ln, t) for (c, t, f, ln) in extra)
        # place right after the opening of the verus! block
        k = result.find('verus! {')
        k = result.find('\n', k) + 1
        result = result[:k] + block + '\n' + result[k:]
        for (c, t, f, ln) in extra:
            report.append({'kind': 'const', 'file': f, 'name': c, 'rules_requested': ['auto'], 'line_start': ln, 'line_end': ln,
                           'sha256': hashlib.sha256(t.encode()).hexdigest(), 'rewrites': [], 'ghost_insertions': []})
    os.makedirs(os.path.dirname(out_path), exist_ok=True)
    with open(out_path, 'w') as f:
        f.write(result)
    report.extend(pins)
    for it in report:
        it.pop('_src', None); it.pop('_consts_used', None)
    with open(report_path, 'w') as f:
        json.dump({'template': template_path, 'unit': out_path, 'items': report}, f, indent=1)
    return report


if __name__ == '__main__':
    try:
        rep = build_unit(sys.argv[1], sys.argv[2], sys.argv[2] + '.extract.json', set(sys.argv[3:]))
        print('extracted %d items' % len(rep))
    except LostAnchor as ex:
        print('LOST-ANCHOR: %s' % ex, file=sys.stderr)
        sys.exit(2)
