#!/usr/bin/env python3
"""Regenerate MANIFEST.json from contracts/registry.py (single source of truth)."""
import json, os, sys
ROOT = os.path.dirname(os.path.dirname(os.path.abspath(__file__)))
sys.path.insert(0, os.path.join(ROOT, 'contracts'))
import registry

def main():
    ids = [json.loads(l)['id'] for l in open(os.path.join(ROOT, 'properties.jsonl'))]
    checks = []
    na = []
    for pid in ids:
        p = registry.PROPS.get(pid)
        if p is None:
            reason = registry.NOT_APPLICABLE.get(pid, 'check not built yet (work in progress; see DESIGN.md section 4 for the planned unit)')
            na.append({'property_id': pid, 'reason': reason})
            continue
        c = {
            'property_id': pid,
            'quick_cmd': './check %s --tier quick' % pid,
            'thorough_cmd': './check %s --tier thorough' % pid,
            'evidence_file': '/verif/evidence/%s.json' % pid,
            'replay_cmd_template': './check %s --replay {path}' % pid,
            'engine': 'contracts',
            'level_claimed': {'category': p.get('level', 'proof'), 'text': p['level_text'], 'design_ref': p.get('design_ref', 'DESIGN.md section 5 / ' + pid)},
            'level_note': p['level_note'],
            'technique': p.get('technique', 'contract-based deductive verification (Verus) of functions extracted from /repo on every run'),
        }
        checks.append(c)
    m = {
        'version': 1,
        'setup_cmd': './setup.sh',
        'hooks': {
            'guard': 'kmertools_verif',
            'enable': 'RUSTFLAGS="--cfg kmertools_verif" (only the native replay program used for witness search is built with it; Verus reads source text and needs no hook)',
            'baseline_off_cmd': 'cd /repo && cargo test --workspace --no-fail-fast --offline',
            'source_commits': registry.HOOK_COMMITS,
            'add_only': True,
        },
        'engines': [
            {'name': 'contracts', 'path': '/verif/check', 'serves_properties': [c['property_id'] for c in checks],
             'kind_free_text': 'extractor (tools/extract.py) + contract templates (contracts/*.vrs) discharged by Verus; Kani harness crates (kani/) for loop-free / operand-width-bounded complete proofs and labelled bounded stand-ins; native replay program (replay/) only for witness search after a failed obligation'},
        ],
        'checks': checks,
        'not_applicable': na,
        'notes': 'exit codes: 0 held, 1 VIOLATION, 2 undecided (lost anchor / tool limit; never an alarm). See DESIGN.md.',
    }
    with open(os.path.join(ROOT, 'MANIFEST.json'), 'w') as f:
        json.dump(m, f, indent=1)
    print('MANIFEST.json: %d checks, %d not_applicable' % (len(checks), len(na)))

if __name__ == '__main__':
    main()
