"""Generators for Kani harness crates whose code under test is text extracted from /repo on every run."""
import hashlib
import os
import sys
sys.path.insert(0, os.path.dirname(os.path.abspath(__file__)))
import extract


def gen_seqformat(crate_dir):
    src = extract.Source('ktio/src/seq.rs')
    s, e = extract.find_struct(src, 'SeqFormat')
    blocks = extract.impl_blocks(src, 'SeqFormat')
    inherent = [b for b in blocks if not any(h.text == 'for' for h in b[2])]
    if len(inherent) != 1:
        raise extract.LostAnchor('impl SeqFormat: %d inherent impl blocks' % len(inherent))
    o, c, hdr = inherent[0]
    impl_start = src.toks[o - 2].start if src.toks[o - 2].text == 'impl' else src.toks[o - 1].start
    # find the `impl` keyword token preceding the header
    k = o
    while src.toks[k].text != 'impl':
        k -= 1
    text = '#[derive(Debug, Clone, Copy)]\npub ' + src.text[s:e] + '\n' + src.text[src.toks[k].start:src.toks[c].end]
    with open(os.path.join(crate_dir, 'harness.rs.in')) as f:
        tpl = f.read()
    os.makedirs(os.path.join(crate_dir, 'src'), exist_ok=True)
    with open(os.path.join(crate_dir, 'src', 'lib.rs'), 'w') as f:
        f.write(tpl.replace('//@EXTRACTED@', text))
    return [{'kind': 'fn', 'file': 'ktio/src/seq.rs', 'name': 'SeqFormat::get (enum + inherent impl, verbatim)',
             'line_start': src.line_of(s), 'line_end': src.line_of(src.toks[c].end),
             'sha256': hashlib.sha256(text.encode()).hexdigest(), 'rules_requested': ['R1', 'R2'], 'rewrites': [], 'ghost_insertions': []}]
