"""Run the Kani harnesses of a unit (harness crate under /verif/kani/<crate>) and classify results.
A harness is either `complete` (loop-free or operand-width-bounded with unwinding assertions: a proof)
or a bounded stand-in (stated bound; reported under bounded_standins, never counted as proved)."""
import os
import re
import shutil
import subprocess
import time

ROOT = os.path.dirname(os.path.dirname(os.path.abspath(__file__)))


def _prepare(crate_dir, info):
    if info.get('needs_lock', True):
        shutil.copyfile('/repo/Cargo.lock', os.path.join(crate_dir, 'Cargo.lock'))
    gen = info.get('generate')
    if gen:
        import kani_gen
        info['items'] = getattr(kani_gen, gen)(crate_dir)


def run_kani_unit(unit, info, tier):
    crate_dir = os.path.join(ROOT, 'kani', info['crate'])
    res = {'functions': {}, 'failures': [], 'hard_errors': [], 'items': [], 'trusted': list(info.get('trusted', [])),
           'bounded_standins': []}
    try:
        _prepare(crate_dir, info)
    except Exception as e:  # lost anchor in a generated harness crate
        res.update(status='undecided', reason='cannot prepare Kani crate: %s' % e)
        return res
    if 'items' in info:
        res['items'] = info['items']
    env = dict(os.environ)
    env['CARGO_NET_OFFLINE'] = 'true'
    env['CARGO_TARGET_DIR'] = os.path.join(ROOT, 'build', 'kani-target-' + info['crate'])
    harnesses = [h for h in info['harnesses'] if tier == 'thorough' or not h.get('thorough_only')]
    cmds = []
    all_ok = True
    undecided = None
    for h in harnesses:
        cmd = ['cargo', 'kani', '--harness', h['name']] + list(info.get('kani_args', [])) + list(h.get('args', []))
        cmds.append(' '.join(cmd))
        t0 = time.time()
        try:
            p = subprocess.run(cmd, cwd=crate_dir, env=env, capture_output=True, text=True,
                               timeout=int(h.get('timeout', 600)))
            out = p.stdout + '\n' + p.stderr
        except subprocess.TimeoutExpired:
            out = ''
            p = None
        dt = int((time.time() - t0) * 1000)
        name = 'kani::' + h['name']
        rec = {'mode': 'kani-complete' if h.get('complete') else 'kani-bounded', 'time_ms': dt, 'rlimit': 0}
        if p is None:
            undecided = '%s: Kani timeout' % h['name']
            continue
        ok = 'VERIFICATION:- SUCCESSFUL' in out
        failed = 'VERIFICATION:- FAILED' in out
        if not ok and not failed:
            undecided = '%s: Kani did not reach a verdict (compile error?): %s' % (h['name'], out[-600:])
            continue
        if failed:
            fc = re.findall(r'Failed Checks: (.*)', out)
            only_unwind = fc and all('unwinding assertion' in x for x in fc)
            if only_unwind:
                undecided = '%s: unwinding assertion failed (bound %s too small for the current code)' % (h['name'], h.get('bound'))
                continue
        if h.get('complete'):
            rec['success'] = ok
            res['functions'][name] = rec
            if failed:
                fc = re.findall(r'Failed Checks: (.*)', out)
                res['failures'].append({'kind': 'obligation', 'function': name, 'msg': 'Kani: ' + '; '.join(fc[:4]),
                                        'clause': h.get('claim', ''), 'line': None, 'context': out[-3000:]})
                all_ok = False
        else:
            res['bounded_standins'].append({'harness': h['name'], 'bound': h.get('bound'), 'result': 'held' if ok else 'FAILED',
                                            'time_ms': dt})
            if failed:
                fc = re.findall(r'Failed Checks: (.*)', out)
                rec['success'] = False
                res['functions'][name] = rec
                res['failures'].append({'kind': 'obligation', 'function': name, 'msg': 'Kani (bounded %s): %s' % (h.get('bound'), '; '.join(fc[:4])),
                                        'clause': h.get('claim', ''), 'line': None, 'context': out[-3000:]})
                all_ok = False
    res['cmd'] = ' && '.join(cmds) + ' (in kani/%s)' % info['crate']
    res['stderr'] = '\n'.join(f['context'] for f in res['failures'])[-12000:]
    if undecided and all_ok:
        res['status'] = 'undecided'
        res['reason'] = undecided
    else:
        res['status'] = 'verified' if all_ok else 'failed'
    res['expected'] = None
    res['trusted'].append('Kani 0.68 / CBMC 6.11 and its SAT solver; rustc MIR of the harness crate')
    return res
