#!/usr/bin/env python3
"""Mechanical tightness check of the contracts (development aid, not registered in MANIFEST.json).

For every function / lifted statement range that a Verus unit extracts from /repo, generate single-token
mutants of the SOURCE (relational, arithmetic, bitwise and logical operator swaps, small literal +1), apply each to a
scratch copy of /repo, re-extract and re-verify the unit, and record whether the verifier notices:
  killed      an obligation of a non-canary function fails
  undecided   the mutant leaves the Verus subset / loses an anchor (the bounded stand-in would decide)
  survived    every obligation still verifies  -> equivalent mutant, or a contract that is too weak
Usage:  mutate_sweep.py [-j N] [unit ...]      results: build/mutate_sweep.json, summary on stdout."""
import concurrent.futures, json, os, re, shutil, subprocess, sys, tempfile, time

ROOT = os.path.dirname(os.path.dirname(os.path.abspath(__file__)))
sys.path.insert(0, os.path.join(ROOT, 'tools'))
sys.path.insert(0, os.path.join(ROOT, 'contracts'))
import registry  # noqa: E402

DELETIONS = False
SWAPS = {'<': ['<='], '<=': ['<'], '>': ['>='], '>=': ['>'], '==': ['!='], '!=': ['=='],
         '+': ['-'], '-': ['+'], '<<': ['>>'], '>>': ['<<'], '&': ['|'], '|': ['&'], '^': ['|'],
         '&&': ['||'], '||': ['&&'], '+=': ['-='], '-=': ['+='], '*': ['+'], '/': ['*'], '%': ['/']}

CHILD = r'''
import json, os, sys
sys.path.insert(0, os.path.join(%(root)r, 'tools'))
import extract, verus_run
unit_tpl, out = sys.argv[1], sys.argv[2]
try:
    items = extract.build_unit(unit_tpl, out, out + '.json')
except extract.LostAnchor as e:
    print(json.dumps({'verdict': 'undecided', 'why': 'lost anchor: %%s' %% e})); sys.exit(0)
# text that only an assumed contract / stub stands for (pins, text dropped by M3 rewrites): a change there is undecided
from importlib.machinery import SourceFileLoader
chk = SourceFileLoader('verif_check', os.path.join(%(root)r, 'check')).load_module()
unit = os.path.splitext(os.path.basename(unit_tpl))[0]
try:
    exp = json.load(open(os.path.join(%(root)r, 'contracts', 'expect', unit + '.json')))
except Exception:
    exp = {}
cur = chk.pins_of({'items': items})
changed = sorted(k for k in set(cur) | set(exp.get('pins', {})) if cur.get(k) != exp.get('pins', {}).get(k))
vr = verus_run.run_verus(out, timeout=600)
failed = [f for f, v in vr.get('functions', {}).items() if not v['success'] and not f.split('::')[-1].startswith('canary_')]
if vr['status'] == 'undecided':
    print(json.dumps({'verdict': 'undecided', 'why': (vr.get('reason') or '')[:160]}))
elif failed:
    print(json.dumps({'verdict': 'killed', 'why': ', '.join(failed[:3])}))
elif changed:
    print(json.dumps({'verdict': 'undecided', 'why': 'pinned text changed: ' + changed[0][:120]}))
else:
    print(json.dumps({'verdict': 'survived', 'why': ''}))
''' % {'root': ROOT}


def items_of(unit):
    rep = os.path.join(ROOT, 'build', unit + '.rs.extract.json')
    if not os.path.exists(rep):
        return []
    d = json.load(open(rep))
    return [it for it in d['items'] if it.get('kind') in ('fn', 'method', 'stmts') and it.get('line_start')]


def mutants_of(unit):
    import extract
    out = []
    seen = set()
    for it in items_of(unit):
        src = extract.Source(it['file'])
        lines = src.text.split('\n')
        lo = sum(len(l) + 1 for l in lines[:it['line_start'] - 1])
        hi = sum(len(l) + 1 for l in lines[:it['line_end']])
        toks = [t for t in src.toks if t.start >= lo and t.end <= hi]
        for i, t in enumerate(toks):
            reps = []
            if t.text in SWAPS and t.kind != 'ident':
                # skip `&` / `*` used as reference / deref (previous token is not an operand) and `->`, generics
                prev = toks[i - 1].text if i > 0 else ''
                if t.text in ('&', '*', '-') and not (re.match(r'[\w\)\]]', prev[-1:] or ' ')):
                    continue
                if t.text in ('<', '>') and (re.match(r'[A-Z]', toks[i + 1].text[:1] if i + 1 < len(toks) else '') or prev in ('Vec', 'Option', 'HashMap', 'HashSet', 'VecDeque', 'Result', 'Some', 'impl', 'fn', '::')):
                    continue
                reps = SWAPS[t.text]
            elif re.fullmatch(r'[0-9]+(_?(u8|u32|u64|usize|f64))?', t.text) and int(re.match(r'[0-9]+', t.text).group(0)) <= 8:
                n = int(re.match(r'[0-9]+', t.text).group(0))
                reps = [t.text.replace(str(n), str(n + 1), 1)]
            for r in reps:
                key = (it['file'], t.start, r)
                if key in seen:
                    continue
                seen.add(key)
                out.append({'unit': unit, 'item': it['name'], 'file': it['file'], 'start': t.start, 'end': t.end, 'old': t.text, 'new': r,
                            'line': src.text.count('\n', 0, t.start) + 1,
                            'context': src.text[src.text.rfind('\n', 0, t.start) + 1: src.text.find('\n', t.end)].strip()[:110]})
    if DELETIONS:
        out = []
        seen = set()
        for it in items_of(unit):
            src = extract.Source(it['file'])
            lines = src.text.split('\n')
            off = 0
            for ln, text in enumerate(lines, 1):
                if it['line_start'] <= ln <= it['line_end'] and re.match(r'^\s*(\*?self\.)?[\w\.\[\]\*]+\s*(\+|-|\||&|\^|<<|>>)?=\s*[^;=][^;]*;\s*(//.*)?$', text) and not text.strip().startswith('let '):
                    key = (it['file'], ln)
                    if key not in seen:
                        seen.add(key)
                        out.append({'unit': unit, 'item': it['name'], 'file': it['file'], 'start': off, 'end': off + len(text), 'old': text.strip()[:60], 'new': '',
                                    'line': ln, 'context': 'statement deleted: ' + text.strip()[:90]})
                off += len(text) + 1
    return out


def run_one(m, scratch_pool):
    scratch = scratch_pool.get()
    try:
        path = os.path.join(scratch, m['file'])
        orig = open(os.path.join('/repo', m['file'])).read()
        open(path, 'w').write(orig[:m['start']] + m['new'] + orig[m['end']:])
        tpl = os.path.join(ROOT, 'contracts', registry.UNITS[m['unit']]['template'])
        out = os.path.join(scratch, '_verif_unit_%s.rs' % m['unit'])
        env = dict(os.environ); env['VERIF_REPO'] = scratch
        p = subprocess.run([sys.executable, '-c', CHILD, tpl, out], env=env, capture_output=True, text=True, timeout=900)
        last = [l for l in p.stdout.strip().split('\n') if l.startswith('{')]
        res = json.loads(last[-1]) if last else {'verdict': 'undecided', 'why': 'child produced nothing: ' + p.stderr[-200:]}
        open(path, 'w').write(orig)
    except Exception as e:
        res = {'verdict': 'undecided', 'why': 'error: %s' % e}
    finally:
        scratch_pool.put(scratch)
    m.update(res)
    return m


def main():
    import queue
    args = sys.argv[1:]
    j = 6
    if args and args[0] == '-j':
        j = int(args[1]); args = args[2:]
    if args and args[0] == '--deletions':
        global DELETIONS
        DELETIONS = True; args = args[1:]
    units = args or [u for u, info in registry.UNITS.items() if info['backend'] == 'verus']
    muts = []
    for u in units:
        muts.extend(mutants_of(u))
    print('%d mutants over %d units' % (len(muts), len(units)), flush=True)
    pool = queue.Queue()
    scratches = []
    for k in range(j):
        s = tempfile.mkdtemp(prefix='verif-mutsweep-')
        subprocess.run(['rsync', '-a', '--exclude', 'target', '--exclude', '.git', '/repo/', s + '/'], check=True)
        scratches.append(s); pool.put(s)
    t0 = time.time()
    done = []
    try:
        with concurrent.futures.ThreadPoolExecutor(max_workers=j) as ex:
            for m in ex.map(lambda m: run_one(m, pool), muts):
                done.append(m)
                if m['verdict'] == 'survived':
                    print('SURVIVED %s %s:%d  %s -> %s   | %s' % (m['unit'], m['file'], m['line'], m['old'], m['new'], m['context']), flush=True)
    finally:
        for s in scratches:
            shutil.rmtree(s, ignore_errors=True)
    tally = {}
    for m in done:
        tally[m['verdict']] = tally.get(m['verdict'], 0) + 1
    os.makedirs(os.path.join(ROOT, 'build'), exist_ok=True)
    json.dump(done, open(os.path.join(ROOT, 'build', 'mutate_sweep.json'), 'w'), indent=1)
    print('tally: %s  (%.0f s)' % (tally, time.time() - t0))


if __name__ == '__main__':
    main()
