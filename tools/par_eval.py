#!/usr/bin/env python3
"""Evaluate seeded changes in parallel without touching /repo.

  par_eval.py [-j N] [id-prefix ...]        (default: every directory under seeded/)

Each worker gets a throw-away copy of /verif (W/verif, with every "/repo" in its scripts and manifests
rewritten to W/repo) and a detached git worktree of /repo's HEAD (W/repo).  For each seeded change it
applies the patch to W/repo, runs W/verif/check <property>, records exit code and key lines in
seeded/<id>/meta.json (check_results) of the real /verif, and restores W/repo.  Development aid only:
nothing registered in MANIFEST.json depends on it."""
import concurrent.futures, glob, json, os, queue, re, shutil, subprocess, sys, time

ROOT = os.path.dirname(os.path.dirname(os.path.abspath(__file__)))
SEEDED = os.path.join(ROOT, 'seeded')
BASE = '/tmp/verif_pareval'


def sh(cmd, cwd=None, env=None, timeout=3600):
    e = dict(os.environ)
    if env:
        e.update(env)
    p = subprocess.run(cmd, shell=True, cwd=cwd, env=e, capture_output=True, text=True, timeout=timeout)
    return p.returncode, p.stdout + p.stderr


def setup_worker(k):
    w = os.path.join(BASE, 'w%d' % k)
    repo = os.path.join(w, 'repo')
    verif = os.path.join(w, 'verif')
    if os.path.exists(repo):
        sh('git -C /repo worktree remove --force %s' % repo)
    shutil.rmtree(w, ignore_errors=True)
    os.makedirs(w)
    rc, out = sh('git -C /repo worktree add --detach %s HEAD' % repo)
    assert rc == 0, out
    sh('rsync -a --exclude build --exclude .git --exclude evidence/replay %s/ %s/' % (ROOT, verif))
    files = [os.path.join(verif, 'check'), os.path.join(verif, 'replay', 'Cargo.toml')]
    files += glob.glob(os.path.join(verif, 'tools', '*.py')) + glob.glob(os.path.join(verif, 'tools', '*.sh'))
    files += glob.glob(os.path.join(verif, 'kani', '*', 'Cargo.toml')) + glob.glob(os.path.join(verif, 'kani', '*', '*.in'))
    for f in files:
        t = open(f).read()
        t2 = re.sub(r'/repo\b', repo, t)
        if t2 != t:
            open(f, 'w').write(t2)
    return w


def eval_one(w, sid):
    repo = os.path.join(w, 'repo')
    verif = os.path.join(w, 'verif')
    d = os.path.join(SEEDED, sid)
    meta = json.load(open(os.path.join(d, 'meta.json')))
    prop = meta['breaks_property']
    rc, out = sh('git apply %s' % os.path.join(d, 'patch.diff'), cwd=repo)
    if rc != 0:
        return sid, prop, {'exit': None, 'lines': ['patch does not apply: ' + out[-300:]], 'wall_s': 0}
    t0 = time.time()
    try:
        rc, out = sh('./check %s' % prop, cwd=verif, env={'VERIF_REPO': repo}, timeout=3000)
    except subprocess.TimeoutExpired:
        rc, out = 2, 'timeout'
    finally:
        sh('git checkout -- . && git clean -fdq', cwd=repo)
    lines = [l for l in out.split('\n') if l.startswith(('VIOLATION', 'FAILED OBLIGATION', 'UNDECIDED', 'witness', 'KNOWN')) or 'proof undecided' in l]
    lines = [l.replace(w + '/verif', '/verif').replace(repo, '/repo') for l in lines]
    return sid, prop, {'exit': rc, 'lines': lines[:8], 'wall_s': round(time.time() - t0, 1)}


def main():
    args = sys.argv[1:]
    j = 5
    if args and args[0] == '-j':
        j = int(args[1]); args = args[2:]
    ids = sorted(os.listdir(SEEDED))
    if args:
        ids = [i for i in ids if any(i.startswith(a) for a in args)]
    rc, out = sh('git -C /repo status --porcelain')
    if out.strip():
        print('refusing: /repo is not clean'); return 1
    os.makedirs(BASE, exist_ok=True)
    q = queue.Queue()
    for i in ids:
        q.put(i)
    j = min(j, len(ids))

    def worker(k):
        w = setup_worker(k)
        while True:
            try:
                sid = q.get_nowait()
            except queue.Empty:
                break
            try:
                sid, prop, res = eval_one(w, sid)
            except Exception as e:
                print('%s: evaluation failed: %s' % (sid, e), flush=True)
                continue
            mp = os.path.join(SEEDED, sid, 'meta.json')
            meta = json.load(open(mp))
            meta.setdefault('check_results', {})[prop] = res
            json.dump(meta, open(mp, 'w'), indent=1)
            print('%s on %s: exit %s (%ss)  %s' % (sid, prop, res['exit'], res['wall_s'], ' | '.join(res['lines'][:3])[:300]), flush=True)
        sh('git -C /repo worktree remove --force %s' % os.path.join(w, 'repo'))
        shutil.rmtree(w, ignore_errors=True)

    with concurrent.futures.ThreadPoolExecutor(max_workers=j) as ex:
        list(ex.map(worker, range(j)))
    shutil.rmtree(BASE, ignore_errors=True)
    return 0


if __name__ == '__main__':
    sys.exit(main())
