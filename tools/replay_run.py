"""Witness search on the real code (native program in /verif/replay).  Only ever called after an
obligation failed; its result decides whether the VIOLATION line carries a concrete input."""
import json
import os
import subprocess

ROOT = os.path.dirname(os.path.dirname(os.path.abspath(__file__)))
BIN = os.path.join(ROOT, 'build', 'replay-target', 'release', 'verif_replay')


def build():
    p = subprocess.run([os.path.join(ROOT, 'tools', 'build_replay.sh')], capture_output=True, text=True, timeout=1800)
    if p.returncode != 0:
        raise RuntimeError('replay program does not build against the current tree:\n' + p.stderr[-3000:])


def run(cmd, seed=1, tier='quick', inp=None, timeout=900):
    args = [BIN, cmd, '--seed', str(seed), '--tier', tier]
    if inp is not None:
        args += ['--input', json.dumps({k: str(v) for k, v in inp.items()})]
    env = dict(os.environ)
    env.setdefault('VERIF_SCRATCH', os.path.join(ROOT, 'build', 'replay-scratch'))
    p = subprocess.run(args, capture_output=True, text=True, timeout=timeout, env=env)
    last = [l for l in p.stdout.strip().split('\n') if l.startswith('{')]
    if not last:
        # the real code crashed the process (abort / stack overflow): that is itself an observation
        return {'found': True, 'cases': 0, 'witness': {'process': 'witness program died', 'returncode': p.returncode,
                                                       'stderr': p.stderr[-1500:]}}
    return json.loads(last[-1])


PY_TARGET = os.path.join(ROOT, 'build', 'py-target')


def search_py(seed, tier):
    """C13: build the real Python extension (pip crate) from /repo's current tree and drive it from python3."""
    env = dict(os.environ)
    env.update({'CARGO_NET_OFFLINE': 'true', 'CARGO_TARGET_DIR': PY_TARGET})
    p = subprocess.run(['cargo', 'build', '-p', 'pip', '--offline', '--features', 'pyo3/extension-module'], cwd='/repo', env=env,
                       capture_output=True, text=True, timeout=3000)
    if p.returncode != 0:
        raise RuntimeError('python extension does not build against the current tree:\n' + p.stderr[-2000:])
    moddir = os.path.join(PY_TARGET, 'pymod')
    os.makedirs(moddir, exist_ok=True)
    import shutil
    shutil.copyfile(os.path.join(PY_TARGET, 'debug', 'libpykmertools.so'), os.path.join(moddir, 'pykmertools.so'))
    env['PYTHONPATH'] = moddir
    q = subprocess.run(['python3', os.path.join(ROOT, 'replay', 'py', 'c13.py'), str(seed), tier], env=env, capture_output=True, text=True, timeout=3000)
    last = [l for l in q.stdout.strip().split('\n') if l.startswith('{')]
    if not last:
        return {'found': True, 'cases': 0, 'cmd': 'c13', 'witness': {'process': 'python driver died (interpreter crash or exception)', 'returncode': q.returncode,
                                                                     'stderr': q.stderr[-1500:]}}
    out = json.loads(last[-1])
    out['cmd'] = 'c13'
    return out


def search(prop, cmd, seed, tier):
    if ',' in cmd:
        # several witness programs for one property: run them in order until one reports a failing input
        total = 0
        last = None
        for c in cmd.split(','):
            last = search(prop, c.strip(), seed, tier)
            total += last.get('cases', 0) or 0
            if last.get('found'):
                break
        last['cases'] = total
        return last
    if cmd == 'c13':
        return search_py(seed, tier)
    build()
    out = run(cmd, seed, tier)
    out['cmd'] = cmd
    return out


def replay_file(path):
    with open(path) as f:
        rp = json.load(f)
    print('property: %s' % rp['property'])
    for fo in rp.get('failed_obligations', []):
        print('failed obligation: unit=%s function=%s: %s | %s' % (fo['unit'], fo['function'], fo['error'], fo['clause']))
    w = rp.get('witness')
    if not w or not w.get('found') or not isinstance(w.get('witness'), dict) or 'process' in w['witness']:
        print('no concrete failing input was recorded (no-failing-input-found); verifier output:')
        for u, t in rp.get('verifier_output', {}).items():
            print('--- %s ---\n%s' % (u, t[-3000:]))
        return 1
    build()
    out = run(w['cmd'], inp=w['witness'])
    print('replaying input %s on the real code of the current tree' % json.dumps(w['witness']))
    if out.get('found'):
        print('REPRODUCED: %s' % json.dumps(out['witness']))
        return 1
    print('not reproduced on the current tree (the input now satisfies the spec)')
    return 0
