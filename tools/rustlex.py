"""Minimal Rust lexer + item locator used by the extractor.

It is a token scanner, not a parser: it recognises comments, string/char/byte
literals, raw strings, lifetimes, identifiers, numbers and punctuation, and
tracks bracket nesting.  That is enough to find items by their header and to
copy their token range verbatim.
"""
import re

IDENT_START = re.compile(r'[A-Za-z_]')
IDENT_RE = re.compile(r'[A-Za-z_][A-Za-z0-9_]*')
NUM_RE = re.compile(r'[0-9][A-Za-z0-9_]*(?:\.[0-9][A-Za-z0-9_]*)?')
RAW_STR_RE = re.compile(r'b?r(#*)"')

OPEN = {'(': ')', '[': ']', '{': '}'}
CLOSE = {')': '(', ']': '[', '}': '{'}


class Tok:
    __slots__ = ('kind', 'text', 'start', 'end', 'depth')

    def __init__(self, kind, text, start, end, depth):
        self.kind = kind      # 'ident' 'num' 'str' 'char' 'life' 'punct' 'comment' 'doc'
        self.text = text
        self.start = start
        self.end = end
        self.depth = depth    # bracket depth *before* this token (for open) / after (for close)

    def __repr__(self):
        return 'Tok(%s,%r,%d)' % (self.kind, self.text, self.depth)


class LexError(Exception):
    pass


def lex(src):
    """Return list of tokens (comments included as kind comment/doc)."""
    toks = []
    i = 0
    n = len(src)
    depth = 0
    while i < n:
        c = src[i]
        if c.isspace():
            i += 1
            continue
        if src.startswith('//', i):
            j = src.find('\n', i)
            if j < 0:
                j = n
            text = src[i:j]
            kind = 'doc' if (text.startswith('///') and not text.startswith('////')) or text.startswith('//!') else 'comment'
            toks.append(Tok(kind, text, i, j, depth))
            i = j
            continue
        if src.startswith('/*', i):
            lvl = 1
            j = i + 2
            while j < n and lvl > 0:
                if src.startswith('/*', j):
                    lvl += 1
                    j += 2
                elif src.startswith('*/', j):
                    lvl -= 1
                    j += 2
                else:
                    j += 1
            text = src[i:j]
            kind = 'doc' if text.startswith('/**') and not text.startswith('/***') else 'comment'
            toks.append(Tok(kind, text, i, j, depth))
            i = j
            continue
        m = RAW_STR_RE.match(src, i)
        if m:
            hashes = m.group(1)
            endmark = '"' + hashes
            j = src.find(endmark, m.end())
            if j < 0:
                raise LexError('unterminated raw string at %d' % i)
            j += len(endmark)
            toks.append(Tok('str', src[i:j], i, j, depth))
            i = j
            continue
        if c == '"' or (c == 'b' and i + 1 < n and src[i + 1] == '"'):
            j = i + (2 if c == 'b' else 1)
            while j < n and src[j] != '"':
                if src[j] == '\\':
                    j += 2
                else:
                    j += 1
            j += 1
            toks.append(Tok('str', src[i:j], i, j, depth))
            i = j
            continue
        if c == "'" or (c == 'b' and i + 1 < n and src[i + 1] == "'"):
            k = i + (1 if c == 'b' else 0)
            # char literal or lifetime
            # char literal: '\..' or 'x' followed by '
            if k + 1 < n and src[k + 1] == '\\':
                j = k + 2
                while j < n and src[j] != "'":
                    j += 1
                j += 1
                toks.append(Tok('char', src[i:j], i, j, depth))
                i = j
                continue
            if k + 2 < n and src[k + 2] == "'":
                j = k + 3
                toks.append(Tok('char', src[i:j], i, j, depth))
                i = j
                continue
            # lifetime
            m2 = IDENT_RE.match(src, k + 1)
            if m2 and c == "'":
                j = m2.end()
                toks.append(Tok('life', src[i:j], i, j, depth))
                i = j
                continue
            raise LexError('bad quote at %d' % i)
        if IDENT_START.match(c):
            m2 = IDENT_RE.match(src, i)
            j = m2.end()
            toks.append(Tok('ident', src[i:j], i, j, depth))
            i = j
            continue
        if c.isdigit():
            m2 = NUM_RE.match(src, i)
            j = m2.end()
            # do not swallow a range operator: 0..n
            text = src[i:j]
            if '.' in text and src[i:j].split('.')[1] == '':
                j = i + text.index('.')
            toks.append(Tok('num', src[i:j], i, j, depth))
            i = j
            continue
        if c in OPEN:
            toks.append(Tok('punct', c, i, i + 1, depth))
            depth += 1
            i += 1
            continue
        if c in CLOSE:
            depth -= 1
            toks.append(Tok('punct', c, i, i + 1, depth))
            i += 1
            continue
        # multi-char punctuation that matters to us
        for p in ('->', '=>', '::', '..=', '..', '<<=', '>>=', '&&', '||', '==', '!=', '<=', '>=',
                  '+=', '-=', '*=', '/=', '|=', '&=', '^=', '%=', '<<', '>>'):
            if src.startswith(p, i):
                toks.append(Tok('punct', p, i, i + len(p), depth))
                i += len(p)
                break
        else:
            toks.append(Tok('punct', c, i, i + 1, depth))
            i += 1
    return toks


def code_tokens(toks):
    return [t for t in toks if t.kind not in ('comment', 'doc')]


def match_close(toks, idx):
    """idx points at an opening bracket token in toks; return index of its close."""
    d = toks[idx].depth
    want = OPEN[toks[idx].text]
    for j in range(idx + 1, len(toks)):
        t = toks[j]
        if t.kind == 'punct' and t.text == want and t.depth == d:
            return j
    raise LexError('unbalanced bracket at %d' % toks[idx].start)
