#!/usr/bin/env python3
"""Seeded-change bookkeeping.
  confirm <worktree> <prop> <mN>   apply in the scratch worktree: tests pass + demo fails; reverted: demo passes; then store under /verif/seeded/
  eval <seeded-id> [props...]       apply to /repo, run ./check for the given properties (default: the one it targets), undo, record results
"""
import json, os, re, shutil, subprocess, sys, time
ROOT = os.path.dirname(os.path.dirname(os.path.abspath(__file__)))
SEEDED = os.path.join(ROOT, 'seeded')

def sh(cmd, cwd=None, timeout=3600, env=None):
    e = dict(os.environ); e.update(env or {})
    p = subprocess.run(cmd, shell=True, cwd=cwd, capture_output=True, text=True, timeout=timeout, env=e)
    return p.returncode, p.stdout + p.stderr

def run_demo(wt, d, meta):
    env = {'CARGO_TARGET_DIR': os.path.join(wt, 'target'), 'CARGO_NET_OFFLINE': 'true'}
    if os.path.exists(os.path.join(d, 'demo.sh')):
        return sh('bash %s' % os.path.join(d, 'demo.sh'), cwd=wt, env=env)
    how = meta.get('how_to_run_demo', '')
    m = re.search(r'-p\s+(\w+)', how)
    crate = m.group(1) if m else 'kmer'
    tdir = os.path.join(wt, crate, 'tests')
    created = not os.path.exists(tdir)
    os.makedirs(tdir, exist_ok=True)
    name = 'verif_seeded_demo'
    shutil.copyfile(os.path.join(d, 'demo_test.rs'), os.path.join(tdir, name + '.rs'))
    rc, out = sh('cargo test -p %s --test %s --offline' % (crate, name), cwd=wt, env=env)
    os.remove(os.path.join(tdir, name + '.rs'))
    if created:
        shutil.rmtree(tdir, ignore_errors=True)
    return rc, out

def confirm(wt, prop, mn, tag=''):
    d = os.path.join(wt, '_out', mn)
    meta = json.load(open(os.path.join(d, 'meta.json')))
    env = {'CARGO_TARGET_DIR': os.path.join(wt, 'target'), 'CARGO_NET_OFFLINE': 'true'}
    sh('git checkout -- .', cwd=wt)
    rc, out = sh('git apply %s' % os.path.join(d, 'patch.diff'), cwd=wt)
    if rc != 0:
        print('patch does not apply:', out[-500:]); return False
    rc_t, out_t = sh('cargo test --workspace --no-fail-fast --offline', cwd=wt, env=env)
    tests_ok = rc_t == 0
    rc_d1, out_d1 = run_demo(wt, d, meta)
    sh('git checkout -- .', cwd=wt)
    sh('git clean -fdq -e _out -e target', cwd=wt)
    rc_d0, out_d0 = run_demo(wt, d, meta)
    ok = tests_ok and rc_d1 != 0 and rc_d0 == 0
    print('%s %s: tests_pass_with_patch=%s demo_with_patch_rc=%d demo_clean_rc=%d -> %s' % (prop, mn, tests_ok, rc_d1, rc_d0, 'CONFIRMED' if ok else 'REJECTED'))
    if not ok:
        print(out_t[-800:] if not tests_ok else (out_d1[-600:] + '\n----\n' + out_d0[-600:]))
        return False
    sid = '%s-%s%s' % (prop, tag, mn)
    dst = os.path.join(SEEDED, sid)
    os.makedirs(dst, exist_ok=True)
    for f in os.listdir(d):
        shutil.copyfile(os.path.join(d, f), os.path.join(dst, f))
    meta['breaks_property'] = prop
    meta['confirmed'] = {'ran': ['git apply patch.diff in a scratch worktree of /repo HEAD',
                                 'cargo test --workspace --no-fail-fast --offline (passes with the change)',
                                 'demonstration fails with the change (rc=%d) and passes without it (rc=0)' % rc_d1],
                         'at': time.strftime('%Y-%m-%d %H:%M')}
    json.dump(meta, open(os.path.join(dst, 'meta.json'), 'w'), indent=1)
    return True

def evaluate(sid, props):
    d = os.path.join(SEEDED, sid)
    meta = json.load(open(os.path.join(d, 'meta.json')))
    props = props or [meta['breaks_property']]
    rc, out = sh('git -C /repo status --porcelain')
    if out.strip():
        print('refusing: /repo is not clean'); return
    rc, out = sh('git -C /repo apply %s' % os.path.join(d, 'patch.diff'))
    if rc != 0:
        print('patch does not apply to /repo:', out[-400:]); return
    res = {}
    # the committed evidence files must describe the unchanged tree: save them and put them back afterwards
    saved = {}
    for p in props:
        ev = os.path.join(ROOT, 'evidence', p + '.json')
        if os.path.exists(ev):
            saved[ev] = open(ev).read()
    try:
        for p in props:
            t0 = time.time()
            rc, out = sh('./check %s' % p, cwd=ROOT, timeout=3000)
            lines = [l for l in out.split('\n') if l.startswith(('VIOLATION', 'FAILED OBLIGATION', 'UNDECIDED', 'witness', 'KNOWN')) or 'proof undecided' in l]
            res[p] = {'exit': rc, 'lines': lines[:8], 'wall_s': round(time.time() - t0, 1)}
            print('%s on %s: exit %d  %s' % (sid, p, rc, ' | '.join(lines[:3])[:400]))
    finally:
        sh('git -C /repo checkout -- .')
        sh('git -C /repo clean -fdq')
        for ev, txt in saved.items():
            open(ev, 'w').write(txt)
    meta.setdefault('check_results', {}).update(res)
    json.dump(meta, open(os.path.join(d, 'meta.json'), 'w'), indent=1)

def confirm_harmless(wt, prop, hn, tag=''):
    d = os.path.join(wt, '_out', hn)
    meta = json.load(open(os.path.join(d, 'meta.json')))
    env = {'CARGO_TARGET_DIR': os.path.join(wt, 'target'), 'CARGO_NET_OFFLINE': 'true'}
    sh('git checkout -- .', cwd=wt)
    rc, out = sh('git apply %s' % os.path.join(d, 'patch.diff'), cwd=wt)
    if rc != 0:
        print('patch does not apply:', out[-500:]); return False
    rc_t, out_t = sh('cargo test --workspace --no-fail-fast --offline', cwd=wt, env=env)
    sh('git checkout -- .', cwd=wt)
    sh('git clean -fdq -e _out -e target', cwd=wt)
    print('%s %s (harmless): tests_pass_with_patch=%s' % (prop, hn, rc_t == 0))
    if rc_t != 0:
        return False
    sid = '%s-%s%s' % (prop, tag, hn)
    dst = os.path.join(SEEDED, sid)
    os.makedirs(dst, exist_ok=True)
    for f in os.listdir(d):
        shutil.copyfile(os.path.join(d, f), os.path.join(dst, f))
    meta['breaks_property'] = prop
    meta['harmless'] = True
    meta['confirmed'] = {'ran': ['git apply patch.diff in a scratch worktree', 'cargo test --workspace --no-fail-fast --offline (passes)',
                                 'behaviour preservation is the author\'s argument (why_equivalent) plus: every witness-search program of the property finds no deviation with the patch applied'],
                         'at': time.strftime('%Y-%m-%d %H:%M')}
    json.dump(meta, open(os.path.join(dst, 'meta.json'), 'w'), indent=1)
    return True


if __name__ == '__main__':
    if sys.argv[1] == 'confirm_harmless':
        confirm_harmless(sys.argv[2], sys.argv[3], sys.argv[4], sys.argv[5] if len(sys.argv) > 5 else '')
    elif sys.argv[1] == 'confirm':
        confirm(sys.argv[2], sys.argv[3], sys.argv[4], sys.argv[5] if len(sys.argv) > 5 else '')
    elif sys.argv[1] == 'eval':
        evaluate(sys.argv[2], sys.argv[3:])
