#!/usr/bin/env python3
"""Fill the SEEDED_TABLE placeholder / regenerate section 10's table of DESIGN.md from seeded/*/meta.json."""
import json, os, re, sys
ROOT = os.path.dirname(os.path.dirname(os.path.abspath(__file__)))
rows = []
harmless = []
tally = {}
for sid in sorted(os.listdir(os.path.join(ROOT, 'seeded'))):
    m = json.load(open(os.path.join(ROOT, 'seeded', sid, 'meta.json')))
    prop = m['breaks_property']
    r = m.get('check_results', {}).get(prop)
    if m.get('harmless'):
        if not r:
            v = 'not evaluated'
        elif r['exit'] == 1:
            v = 'FALSE ALARM'
        elif any('proof undecided' in l for l in r['lines']):
            v = 'no alarm (exit 0; proof undecided, stand-in clean)'
        elif r['exit'] == 0:
            v = 'no alarm (exit 0; proof holds)'
        else:
            v = 'exit %d (undecided, nothing explored)' % r['exit']
        harmless.append('| %s | %s | %s |' % (sid, m.get('summary', '')[:150].replace('|', '/'), v))
        continue
    if not r:
        verdict, how = 'not evaluated', ''
    else:
        lines = r['lines']
        if r['exit'] == 1:
            fo = [l for l in lines if l.startswith('FAILED OBLIGATION')]
            if fo:
                verdict = 'proof'
                mm = re.search(r'unit=(\S+) function=(\S+): (.*?) \|', fo[0] + ' |')
                how = '%s::%s — %s' % (mm.group(1), mm.group(2), mm.group(3)) if mm else fo[0][:80]
                if any('no-failing-input-found' in l for l in lines):
                    how += ' (no concrete input found)'
            else:
                verdict = 'stand-in'
                u = [l for l in lines if l.startswith('UNDECIDED')]
                how = (u[0][11:] if u else '')[:110]
        elif r['exit'] == 2:
            verdict = 'undecided'
            u = [l for l in lines if l.startswith('UNDECIDED')]
            how = (u[0][11:] if u else '')[:110]
        elif any('proof undecided' in l for l in lines):
            verdict = 'undecided'
            u = [l for l in lines if l.startswith('UNDECIDED')]
            how = 'exit 0, nothing proved; stand-in found no input: ' + (u[0][11:] if u else '')[:90]
        else:
            verdict, how = 'missed', ''
    tally[verdict] = tally.get(verdict, 0) + 1
    rows.append('| %s | %s | %s | %s | %s |' % (sid, m.get('summary', '')[:120].replace('|', '/'), m.get('needs', '')[:90].replace('|', '/'), verdict, how.replace('|', '/')))
table = '| id | change | needs | result of `./check %s` | deciding obligation / reason |\n|---|---|---|---|---|\n' % '<property>' + '\n'.join(rows)
if harmless:
    table += '\n\nHarmless (behaviour-preserving) changes written by the same sub-agents - the checks must not raise an alarm:\n\n| id | change | result |\n|---|---|---|\n' + '\n'.join(harmless)
if harmless:
    ht = {}
    for h in harmless:
        k = h.rsplit('|', 2)[1].strip().split(' (')[0]
        ht[k] = ht.get(k, 0) + 1
    table += '\n\nHarmless tally: ' + ', '.join('%s %d' % kv for kv in sorted(ht.items())) + ' (of %d).' % len(harmless)
table += '\n\nTally: ' + ', '.join('%s %d' % kv for kv in sorted(tally.items())) + ' (of %d).' % len(rows)
p = os.path.join(ROOT, 'DESIGN.md')
s = open(p).read()
if 'SEEDED_TABLE' in s:
    s = s.replace('SEEDED_TABLE', '<!-- seeded-table-start -->\n' + table + '\n<!-- seeded-table-end -->')
else:
    s = re.sub(r'<!-- seeded-table-start -->.*?<!-- seeded-table-end -->', lambda _m: '<!-- seeded-table-start -->\n' + table + '\n<!-- seeded-table-end -->', s, flags=re.S)
open(p, 'w').write(s)
print(tally, len(rows))
