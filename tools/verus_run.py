"""Run Verus on a generated unit and classify the outcome per function."""
import json
import os
import re
import subprocess
import time

ROOT = os.path.dirname(os.path.dirname(os.path.abspath(__file__)))
BUILD = os.path.join(ROOT, 'build')

# Verus diagnostics that mean "an obligation is not discharged"
OBLIGATION_ERRORS = [
    'postcondition not satisfied',
    'precondition not satisfied',
    'precondition not met',
    'invariant not satisfied',
    'assertion failed',
    'possible arithmetic underflow/overflow',
    'possible division by zero',
    'possible bit shift underflow/overflow',
    'index out of bounds',
    'decreases not satisfied',
    'unreachable_expr',
    'possible overflow',
    'recommendation not met',
    'loop invariant',
    'failed to prove',
    'cannot show invariant',
    'possible array index out of bounds',
    'could not prove termination',
]
RESOURCE_ERRORS = ['Resource limit', 'rlimit', 'timed out', 'out of memory']

ERR_RE = re.compile(r'^(error|note)(\[[A-Z0-9]+\])?: (.*)$')
LOC_RE = re.compile(r'^\s*--> (.+?):(\d+):(\d+)\s*$')


def parse_stderr(text):
    """list of {level, msg, line} from rustc-style text diagnostics"""
    out = []
    cur = None
    for ln in text.split('\n'):
        m = ERR_RE.match(ln)
        if m:
            cur = {'level': m.group(1), 'code': m.group(2), 'msg': m.group(3), 'line': None, 'extra': []}
            out.append(cur)
            continue
        m = LOC_RE.match(ln)
        if m and cur is not None and cur['line'] is None:
            cur['line'] = int(m.group(2))
            continue
        if cur is not None and len(cur['extra']) < 12:
            cur['extra'].append(ln)
    return out


def function_spans(unit_text):
    """crude map line -> enclosing fn name, by scanning `fn name` at brace depth <= 2 of the unit file.
    Good enough to attribute a diagnostic line to a function bundle."""
    spans = []
    depth = 0
    cur = None
    lines = unit_text.split('\n')
    fn_re = re.compile(r'^\s*(?:#\[[^\]]*\]\s*)*(?:pub\s+)?(?:open\s+|closed\s+|uninterp\s+)?(?:spec|proof|exec)?\s*(?:unsafe\s+)?fn\s+(\w+)')
    impl_re = re.compile(r'^\s*impl(?:<[^>]*>)?\s+(?:[\w:<>\', ]+\s+for\s+)?(\w+)')
    impl_name = None
    impl_depth = None
    start_depth = None
    mod_re = re.compile(r'^\s*(?:pub\s+)?mod\s+(\w+)\s*\{')
    mods = []   # (name, depth at which the module body closes)
    for no, ln in enumerate(lines, 1):
        code = re.sub(r'//.*$', '', ln)
        code = re.sub(r'"(?:[^"\\]|\\.)*"', '""', code)
        code = re.sub(r"'(?:[^'\\]|\\.)'", "' '", code)
        if cur is None:
            mm = mod_re.match(code)
            if mm:
                mods.append((mm.group(1), depth))
            mi = impl_re.match(code)
            if mi and impl_name is None:
                impl_name = mi.group(1)
                impl_depth = depth
            m = fn_re.match(code)
            if m:
                nm = m.group(1)
                if impl_name is not None and depth > impl_depth:
                    nm = impl_name + '::' + nm
                if mods:
                    nm = '::'.join(m[0] for m in mods) + '::' + nm
                cur = [nm, no, None]
                start_depth = depth
                seen_open = False
        for ch in code:
            if ch == '{':
                depth += 1
                if cur is not None:
                    seen_open = True
            elif ch == '}':
                depth -= 1
                if cur is not None and seen_open and depth == start_depth:
                    cur[2] = no
                    spans.append(tuple(cur))
                    cur = None
                if impl_name is not None and depth == impl_depth and cur is None:
                    impl_name = None
                if mods and depth == mods[-1][1] and cur is None:
                    mods.pop()
        if cur is not None and not seen_open and code.rstrip().endswith(';') and depth == start_depth:
            # bodiless fn (assume_specification / uninterp)
            cur[2] = no
            spans.append(tuple(cur))
            cur = None
    return spans


def fn_of_line(spans, line):
    best = None
    for (nm, a, b) in spans:
        if a <= line <= (b or a):
            if best is None or a >= best[1]:
                best = (nm, a, b)
    return best[0] if best else None


def run_verus(unit_path, timeout=900, extra_args=()):
    """returns dict(status, functions, failures, diagnostics, time_ms, cmd, raw)"""
    cmd = ['verus', unit_path, '--triggers-mode', 'silent', '--output-json', '--time',
           '--multiple-errors', '8'] + list(extra_args)
    t0 = time.time()
    try:
        p = subprocess.run(cmd, capture_output=True, text=True, timeout=timeout,
                           cwd=os.path.dirname(unit_path))
    except subprocess.TimeoutExpired:
        return {'status': 'undecided', 'reason': 'verus timeout after %ds' % timeout, 'functions': {},
                'failures': [], 'diagnostics': [], 'cmd': ' '.join(cmd), 'wall_s': time.time() - t0}
    wall = time.time() - t0
    res = {'cmd': ' '.join(cmd), 'wall_s': wall, 'returncode': p.returncode, 'stderr': p.stderr[-20000:]}
    try:
        js = json.loads(p.stdout)
    except Exception:
        js = None
    diags = parse_stderr(p.stderr)
    res['diagnostics'] = diags
    with open(unit_path) as f:
        unit_text = f.read()
    spans = function_spans(unit_text)
    unit_lines = unit_text.split('\n')
    crate = os.path.splitext(os.path.basename(unit_path))[0]

    functions = {}
    smt_ms = 0
    rlimit_max = 0
    if js and 'times-ms' in js:
        try:
            for mod in js['times-ms']['smt']['smt-run-module-times']:
                for fb in mod.get('function-breakdown', []):
                    nm = fb['function']
                    if nm.startswith(crate + '::'):
                        nm = nm[len(crate) + 2:]
                    functions[nm] = {'mode': fb.get('mode:') or fb.get('mode'), 'success': fb['success'],
                                     'time_ms': fb['time'], 'rlimit': fb['rlimit']}
                    smt_ms += fb['time']
                    rlimit_max = max(rlimit_max, fb['rlimit'])
        except (KeyError, TypeError):
            pass
    res['functions'] = functions
    res['smt_ms'] = smt_ms
    res['rlimit_max'] = rlimit_max
    res['verus_version'] = (js or {}).get('verus', {}).get('version') if js else None
    vr = (js or {}).get('verification-results', {})
    res['verified'] = vr.get('verified')
    res['errors'] = vr.get('errors')

    failures = []
    hard = []
    for d in diags:
        if d['level'] != 'error':
            continue
        msg = d['msg']
        if msg.startswith('aborting due to'):
            continue
        kind = None
        for pat in OBLIGATION_ERRORS:
            if pat in msg:
                kind = 'obligation'
                break
        if kind is None:
            for pat in RESOURCE_ERRORS:
                if pat in msg:
                    kind = 'resource'
                    break
        if kind is None:
            kind = 'tool'
        fn = fn_of_line(spans, d['line']) if d['line'] else None
        clause = unit_lines[d['line'] - 1].strip() if d['line'] and d['line'] <= len(unit_lines) else ''
        rec = {'kind': kind, 'msg': msg, 'line': d['line'], 'function': fn, 'clause': clause,
               'context': '\n'.join(d['extra'][:8])}
        if kind == 'obligation':
            failures.append(rec)
        else:
            hard.append(rec)
    res['failures'] = failures
    res['hard_errors'] = hard
    if js is None or not vr:
        res['status'] = 'undecided'
        res['reason'] = 'verus produced no JSON result (crash?)'
    elif vr.get('encountered-vir-error') or any(h['kind'] == 'tool' for h in hard):
        res['status'] = 'undecided'
        res['reason'] = 'rustc/VIR error: ' + '; '.join(h['msg'] for h in hard[:3])
    elif any(h['kind'] == 'resource' for h in hard):
        res['status'] = 'undecided' if not failures else 'failed'
        res['reason'] = 'resource limit: ' + '; '.join(h['msg'] for h in hard[:3])
    elif failures or not vr.get('success'):
        res['status'] = 'failed'
        if not failures:
            res['status'] = 'undecided'
            res['reason'] = 'verus reported failure without a classified obligation error'
    else:
        res['status'] = 'verified'
    return res
